"""setup_cmd: verify the tools and pre-parse every specification (nothing is compiled or downloaded)."""
import glob
import os
import shutil
import subprocess
import sys

from . import tlc


def main():
    ok = True
    for tool in ('java',):
        if shutil.which(tool) is None:
            print(f'setup: missing tool {tool}')
            ok = False
    try:
        import numpy, scipy  # noqa
    except Exception as ex:
        print('setup: numpy/scipy import failed', ex)
        ok = False
    mods = sorted(os.path.basename(p)[:-4] for p in glob.glob(os.path.join(tlc.SPEC_DIR, '*.tla')))
    for m in mods:
        good, out = tlc.sany(m)
        if not good:
            print(f'setup: SANY failed on {m}.tla\n' + '\n'.join(out.splitlines()[-15:]))
            ok = False
    print(f'setup: {len(mods)} specification modules parsed, ok={ok}')
    return 0 if ok else 1


if __name__ == '__main__':
    sys.exit(main())
