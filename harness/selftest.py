"""Binding self-test: a trace specification that accepts everything binds nothing.  After the traces of a run have been validated,
a few accepted traces are corrupted in one recorded field each (a boolean observation flipped to false, an integer of a recorded
list incremented) and validated again with the full specification: the corrupted copies must be rejected.  The outcome is reported
in the evidence (`binding_selftest`), it never changes the verdict of the check."""
import copy


def _corruptions(trace):
    """yield (description, corrupted trace) for single-field corruptions of one trace"""
    for k, rec in enumerate(trace):
        if not isinstance(rec, dict):
            continue
        for key, val in rec.items():
            if val is True and key not in ('hooks_missing', 'foreign', 'ambiguous', 'exact', 'is_zero', 'zero', 'warned', 'found', 'cons',
                                           'expect_reduced', 'is_dmrg', 'hermitian', 'imag_time', 'generic_full_rank', 'allzero', 'opt',
                                           'strict', 'sub', 'static'):
                t = copy.deepcopy(trace)
                t[k][key] = False
                yield f'{rec.get("ev")}.{key}: true -> false', t
        for key, val in rec.items():
            if isinstance(val, list) and val and all(isinstance(x, int) and not isinstance(x, bool) for x in val) and key not in ('shape',):
                t = copy.deepcopy(trace)
                t[k][key] = list(val[:-1]) + [val[-1] + 1]
                yield f'{rec.get("ev")}.{key}[-1]: {val[-1]} -> {val[-1] + 1}', t
            elif isinstance(val, int) and not isinstance(val, bool) and key not in ('id', 'seed', 'tid', 'n', 'L', 'd', 'm', 'r', 'a', 'b'):
                t = copy.deepcopy(trace)
                t[k][key] = val + 1
                yield f'{rec.get("ev")}.{key}: {val} -> {val + 1}', t


def run(ctx, module, tag, traces, bad, runner, max_variants=12):
    """runner(list of traces) -> {index: diagnostics} validates with the full specification"""
    st = ctx.notes.setdefault('binding_selftest', {})
    if module in st or ctx.replay is not None:
        return
    # candidates from traces spread over the whole run, one variant per kind of corrupted field (event, key)
    by_kind = {}
    step = max(1, len(traces) // 60)
    for i in range(0, len(traces), step):
        tr = traces[i]
        if i in bad or any(r.get('ev') in ('hook_error', 'raise') for r in tr if isinstance(r, dict)):
            continue
        for desc, t in _corruptions(tr):
            kind = desc.split(':')[0]
            by_kind.setdefault(kind, []).append((desc, t))
    variants = []
    kinds = sorted(by_kind)
    rnd = 0
    while len(variants) < max_variants and any(len(by_kind[k]) > rnd for k in kinds):
        for k in kinds:
            if len(by_kind[k]) > rnd and len(variants) < max_variants:
                variants.append(by_kind[k][-1 - rnd])          # later traces are usually the larger ones
        rnd += 1
    if not variants:
        st[module] = dict(variants=0, rejected=0, note='no corruptible field found')
        return
    try:
        rej = runner([t for _, t in variants])
    except Exception as ex:  # noqa  (the self-test must never break a check)
        st[module] = dict(variants=len(variants), rejected=-1, note=f'self-test run failed: {type(ex).__name__}')
        return
    st[module] = dict(variants=len(variants), rejected=len(rej),
                      examples=[dict(corruption=d, rejected=(j in rej), clause=(str(rej[j][0][2])[:90] if j in rej and rej[j] and len(rej[j][0]) > 2 else ''))
                                for j, (d, _) in enumerate(variants)])
