"""Instrumentation by attribute wrapping (guard PYTENET_VERIF): no source line of /repo is changed.

Every step the specifications name is a module-level function or a method looked up by name at call time, so the
harness replaces the attribute by a logging wrapper for the duration of a `with patched(...)` block."""
import contextlib
import os

GUARD = 'PYTENET_VERIF'


def enabled():
    return os.environ.get(GUARD, '') == '1'


@contextlib.contextmanager
def patched(*triples):
    """triples: (owner, attribute name, factory(original) -> wrapper).  Missing attributes are skipped and reported."""
    saved = []
    missing = []
    try:
        if enabled():
            for owner, name, factory in triples:
                if not hasattr(owner, name):
                    missing.append(f'{getattr(owner, "__name__", owner)}.{name}')
                    continue
                orig = owner.__dict__[name] if name in getattr(owner, '__dict__', {}) else getattr(owner, name)
                saved.append((owner, name, orig))
                setattr(owner, name, factory(orig))
        yield missing
    finally:
        for owner, name, orig in reversed(saved):
            setattr(owner, name, orig)
