"""Instrumentation by attribute wrapping (guard PYTENET_VERIF): no source line of /repo is changed.

Every step the specifications name is a module-level function or a method looked up by name at call time, so the
harness replaces the attribute by a logging wrapper for the duration of a `with patched(...)` block."""
import contextlib
import os
import sys

GUARD = 'PYTENET_VERIF'


def enabled():
    return os.environ.get(GUARD, '') == '1'


class Missing(list):
    """names of the attributes that were not found; .errors: exceptions raised by observer code (never by the original)"""
    def __init__(self):
        super().__init__()
        self.errors = []


def _guard(orig, factory, errors):
    """The observer must never change what the library does.  If the wrapper built by `factory` raises (the signature of a private
    helper changed, a local variable it reads is gone, a value is off the lattice ...), the original is called (or its result
    returned if it had already run) and the error is recorded; an exception raised by the original itself propagates unchanged."""
    def g(*a, **k):
        call = {'done': False, 'exc': None, 'out': None}

        def proxy(*aa, **kk):
            try:
                r = orig(*aa, **kk)
            except BaseException as ex:
                call['exc'] = ex
                raise
            call['done'], call['out'] = True, r
            return r
        try:
            return factory(proxy)(*a, **k)
        except BaseException as ex:
            if call['exc'] is ex or isinstance(ex, (KeyboardInterrupt, SystemExit)) or type(ex).__name__ == '_Timeout':
                raise
            errors.append(f'{type(ex).__name__}: {str(ex)[:80]}')
            if call['done']:
                return call['out']
            return orig(*a, **k)
    return g


@contextlib.contextmanager
def patched(*triples, trace=None):
    """triples: (owner, attribute name, factory(original) -> wrapper).  Missing attributes are skipped and reported.  If observer
    code raised, a `hook_error` record is appended to `trace` (the trace is then validated on its result clauses only)."""
    saved = []
    missing = Missing()
    try:
        if enabled():
            for owner, name, factory in triples:
                if not hasattr(owner, name):
                    missing.append(f'{getattr(owner, "__name__", owner)}.{name}')
                    continue
                orig = owner.__dict__[name] if name in getattr(owner, '__dict__', {}) else getattr(owner, name)
                saved.append((owner, name, orig))
                setattr(owner, name, _guard(orig, factory, missing.errors))
        yield missing
    finally:
        for owner, name, orig in reversed(saved):
            setattr(owner, name, orig)
        if missing.errors and trace is not None:
            trace.append(dict(ev='hook_error', what=missing.errors[0], n=len(missing.errors)))


def caller_locals():
    """locals of the library function that called the wrapped attribute (frames of this module - the guard - are skipped);
    to be called directly from a wrapper"""
    f = sys._getframe(2)
    while f is not None and f.f_code.co_filename == __file__:
        f = f.f_back
    return f.f_locals if f is not None else {}
