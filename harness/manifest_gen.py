"""Generates /verif/MANIFEST.json from the registry below (run: /venv/bin/python -m harness.manifest_gen)."""
import json
import os

VERIF = os.path.dirname(os.path.dirname(os.path.abspath(__file__)))

# pid -> (category, technique, text, note, design_ref)
CLAIMED = {}
NOT_YET = {}


def claim(pid, technique, text, note, category='model_checking', ref=None):
    CLAIMED[pid] = (category, technique, text, note, ref or f'DESIGN.md section 3, {pid}')


claim('C18',
      'TLC exhaustive model checking of Bipartite.tla (all graphs up to 3x3 quick / 4x4 thorough) + TLC trace '
      'validation (TraceBipartite.tla) of every recorded HopcroftKarp / minimum_vertex_cover call',
      'The Hopcroft-Karp / Koenig design is model checked over every bipartite graph of the small sizes (matching valid '
      'in every state, no augmenting path and |cover| = |matching| at the end, brute-force optimum on tiny graphs, '
      'phase bound, termination under fairness). The real code is bound to that model by trace validation: each call on '
      'every edge set up to 3x3/4x2 (4x4 exhaustive in the thorough tier), shuffled/duplicated edge sequences and random '
      'graphs up to 60x60 is recorded (BFS results, augmenting paths, matching, cover) and TLC checks every step is a '
      'model step and that the optimality certificates (Berge, Koenig/weak duality) hold for the returned values.',
      'TLC, the JSON trace recorder (attribute wrappers on two private methods; result clauses are still checked if '
      'they disappear), a 5 s step budget standing in for termination.')

claim('C16',
      'TLC model checking of OpGraph.tla (all rewrite sequences on all tree-expanded term graphs of a bounded universe) '
      '+ replay of TLC-simulated behaviours into real OpGraph objects + TLC trace validation (TraceOpGraph.tla) of '
      'recorded rewrite histories with exact free-algebra denotation',
      'merge_edges / simplify / rename / flip / add are actions of OpGraph.tla with the guards of the code; TLC checks '
      'for every reachable state that the free-algebra polynomial follows the contract of each rewrite (unchanged, '
      'reversed, sum), that the graph is consistent, and that every merge removes an edge and widens no layer. The '
      'real code is bound both ways: behaviours simulated by TLC are replayed on real graphs and compared state by '
      'state, and recorded histories (every merge inside simplify/add, colliding and arbitrary ids, parallel and '
      'multi-operator edges with cancelling coefficients) are validated by TLC, which recomputes the model post-state, '
      'the polynomial, the consistency predicate (cross-checking is_consistent()) and that the other graph of add is '
      'untouched.',
      'Integer coefficients only (exact in TLC); graphs up to length 4 and ~25 nodes in traces; model universe bounded '
      'as listed in the evidence; wrappers on merge_edges / simplify / rename_*_id observe only.')
claim('C05',
      'TLC model checking of OpChains.tla (the compiler with any minimum vertex cover, all chain multisets of a bounded '
      'universe; negative control reproducing finding F1) + TLC trace validation (TraceOpChains.tla) of every site of '
      'real from_opchains runs and of MPO.from_opgraph, with exact free-algebra denotation',
      'The compiler is modelled stage by stage (partition, cover, emit, finish); TLC checks for every chain list of the '
      'universe that the meaning of the anchored state (graph so far + vlist_next + coeffs_next) never changes, that '
      'construction never aborts, that the result is consistent, of the right length, and that multiplying out the '
      'symbolic MPO layers gives the same polynomial. The real compiler is bound by trace validation: its state at '
      'every site iteration is recorded and TLC evaluates the same invariants on it, checks the repartition and that '
      'the cover used is a minimum cover, recomputes the polynomial of the returned graph, and checks the MPO tensors, '
      'bond charges and node map entry by entry under integer operator maps.',
      'Integer coefficients / operator maps; zero boundary charges; exhaustive universe L<=2 (<=2-3 chains), random '
      'lists up to L=6 and 9 chains; the step relation between consecutive sites is checked through the invariant, '
      'not by id-exact refinement (fresh ids are a gauge freedom).')
claim('C17',
      'TLC model checking of Unfold.tla (functional transcriptions of from_optrees / from_automaton against the symbolic '
      'meanings, all trees / automata of a bounded universe) + TLC trace validation (TraceUnfold.tla) of real unfoldings '
      'and of as_matrix() of chains, trees and graphs',
      'For every tree list and automaton of the universe TLC checks that the specified construction denotes the sum of '
      'identity-padded trees resp. the sum over automaton paths, is consistent, of the requested length, and contains '
      'no dead states. Real unfoldings (random trees with leaves at different depths, shared operators, start sites; '
      'automata with self loops, parallel edges, dead states, site-dependent callables) are validated by TLC, which '
      'recomputes the meaning from the input program and compares it with the free-algebra polynomial of the returned '
      'graph, decides whether an exception is legitimate (model guard), and checks the dense matrices returned by '
      'as_matrix() entry by entry under integer operator maps.',
      'Integer coefficients/operator maps; trees up to height 5, automata up to 5 states / 11 edges / L<=5; ids of the '
      'returned graph are not compared (gauge), only meaning, consistency, length, widths and simplifiedness.')
claim('C20',
      'TLC model checking of the width bound in OpChains.tla (negative control with arbitrary covers) and of MergeShrinks '
      'in OpGraph.tla + TLC trace validation of real compilations (minimum cover at every site, widths) + TLC-evaluated '
      'operator Schmidt rank (Gaussian elimination over GF(p) in RankOps.tla, TraceCompact.tla) of the dense operators',
      'With minimum covers the model never has more nodes at a cut than chains (and violates this as soon as '
      'ChooseCover may take any cover); simplify never widens a layer. Real compilations are validated site by site '
      '(the cover used is a minimum vertex cover by the matching/cover certificate). For every built-in model built '
      'through chains, the automaton or the optimized molecular path, every L in dense reach and every cut, TLC computes '
      'the rank of the dense operator reshaped across the cut for three independent random integer parameter draws and '
      'requires bond_dim = max rank.',
      'Rank over two primes < 46341 cross-checked with an exact rational rank; dense operator from as_matrix(); matrix '
      'sizes bounded (quick: L<=4 for d=2, thorough: L<=6).')
claim('C11',
      'TLC exhaustive model checking of the staged block-QR machine BondOps.tla with provenance-tagged matrices (all '
      'shapes <= 3x3 quick / 4x4 thorough, all charge vectors over a 3-letter alphabet, three negative controls) + TLC '
      'trace validation (TraceBondOps.tla) of real qr calls: exact Gaussian-integer identities on monomial instances, '
      'supports / charges / dimension bound on generic ones',
      'The machine mirrors bond_ops.qr statement group by statement group (dummy bond, conditional stable sort, per-charge '
      'blocks, un-sort); under the kernel contract of a dense QR, TLC proves for every layout of the universe that in the '
      'ORIGINAL index order the product of the factors is A, Q is an isometry, both factors are block sparse under the '
      'returned charges and D <= min(m,n); the un-sorting / offset / dummy-charge slips are shown to violate. Every '
      'layout is replayed through the real qr: on monomial entries TLC evaluates Q R = A and Q^H Q = 1 exactly over '
      'Gaussian integers; on generic real/complex/rank-deficient/integer-dtype entries TLC checks supports, charges and '
      'the block-wise dimension bound, and the residuals enter as ok+exponent (mode N).',
      'Kernel contract of numpy.linalg.qr; mode-N bounds 1e-10; alphabet {-1,0,2} and its 2^16-scaled image; random '
      'larger shapes up to 23x15.')
claim('C12',
      'TLC exhaustive model checking of the staged block-SVD machine with nondeterministic block spectra and the exact '
      'rational truncation rule (BondOps.tla, Kind = svd) + TLC trace validation (TraceBondOps.tla) of '
      'retained_bond_indices on all weight vectors of a bounded universe, of split_matrix_svd on generalized permutation '
      'matrices (exact) and generic spectra (mode N), and of split_mps_tensor',
      'TruncationOK (discarded weight <= tol, kept >= discarded, maximality, tol=0 keeps exactly the non-zero values) is '
      'model checked over all layouts x block spectra x tolerances together with product / isometry / sparsity, and the '
      'machine is shown equal to the closed form KeepAllowed. The real retained_bond_indices is run on every weight '
      'vector of length <= 4-5 over {0,1,4,9} and tolerances p/12 plus tolerances equal to a cumulative weight; '
      'split_matrix_svd on exact instances must keep exactly an allowed multiset, with || A - u s v ||^2 = discarded '
      'weight and both isometries evaluated exactly by TLC; generic instances are checked against an independent dense '
      'SVD (mode N); inputs are digested before/after.',
      'Kernel contract of numpy.linalg.svd; boundary tolerances only where float arithmetic is exact; split_mps_tensor '
      'clauses are mode-N flags computed by the harness (1e-9).')
claim('C01',
      'TLC model checking of the canonicalisation sweep Canon.tla (all bond-charge layouts, both modes, MPS and MPO) + '
      'TLC trace validation (TraceCanon.tla) of every local factorization of real orthonormalize calls; exact '
      'norm / state identities on integer and Gaussian-integer states evaluated by TLC',
      'Canon.tla is the sweep (one action per local QR, sign flip, return) over the closed forms of BondOps.tla: forms, '
      'sweep order, bond charges bounded by the block-wise min, dummy branch <=> zero state, non-negative factor, '
      'boundary charges of non-zero states unchanged - checked for every layout of the universe. Real calls on random '
      'sector-consistent MPS/MPO of every style named in the property (L=1, d=1, D=1, all-zero / sorted / repeated / '
      'disjoint charges, real / complex / integer entries, both modes, both classes) are recorded step by step and '
      'validated against the sweep; for integer and Gaussian-integer states TLC checks nrm^2 = ||v||^2 and '
      'nrm * v_new = v_old exactly; generic entries are mode N (1e-10).',
      'Closed forms of the block QR (model checked in BondOps.tla); wrappers on local_orthonormalize_*; mode-N bounds.')
claim('C13',
      'TLC model checking of Canon.tla with op = compress (sweeps, no growth, scale bound prod(1-e_i) >= 1 - L tol) + TLC '
      'trace validation (TraceCanon.tla) of real compress / from_vector calls; the exact rational truncation rule '
      '(KeepAllowed) decides the first truncated bond on designed Schmidt spectra',
      'The compress machine (preparatory sweep in the opposite direction, truncating sweep, dimensions never grow, '
      'canonical result, scale^2 = prod(1-e_i) >= 1 - sum e_i) is model checked; real compress calls are validated step '
      'by step; on states with designed integer Schmidt weights (flat, stair-case, product, geometric, with and without '
      'U(1) sectors) TLC decides with exact rational arithmetic that the first truncated bond keeps exactly the '
      'prescribed values; norm, scale range, the error identity in squared form, unit norm and the from_vector bound '
      '(vectors of norm far from one, weakly entangled vectors at tol = 0) are mode N.',
      'Tolerances coinciding with a cumulative weight are excluded for compress (rounding of the preparatory sweep makes '
      'the tie undecidable); mode-N bounds 1e-10 / 5e-13.')
claim('C03',
      'TLC model checking of the homomorphism laws for the block / Kronecker constructions (Chain.tla, every operand '
      'pair of a bounded universe) + TLC trace validation (TraceChain.tla) of histories over a pool of real MPS/MPO '
      'objects: every result tensor network is contracted by explicit index sums in TLC and compared with the law '
      'evaluated on the dense meaning of the operands',
      'Vec / Mat are defined in ChainOps.tla by site-wise index sums; Chain.tla proves for all operands of the universe '
      'that the direct-sum / Kronecker constructions satisfy the laws (two independent formulations must agree). Real '
      'histories (add, sub, matmul, apply, identity, chained expressions such as ((A+B)@C) psi, dense and sparse '
      'conversion) on Gaussian-integer objects with U(1) sectors, L = 1..4 incl. the single-site and L = 2 special cases, '
      'independent bond profiles and non-trivial boundary charges are validated exactly by TLC. from_vector(tol=0) and '
      'the split/merge round trip are SVD based and are checked as mode-N clauses in C13 / C12.',
      'Data-independent control flow (multilinearity argument); sizes L <= 4, d <= 3; identity(scale) is modelled as the '
      'code is (scale multiplies every site tensor).')
claim('C04',
      'TLC trace validation (TraceChain.tla) of logged vdot / norm / operator_average / operator_inner_product / '
      'operator_density_average / transfer steps / compute_right_operator_blocks / apply_local_hamiltonian (one- and '
      'two-site) / apply_local_bond_contraction calls on Gaussian-integer operands: dense definitions and the projection '
      'identity evaluated exactly; TransferLaw model checked in Chain.tla',
      'All quantities of the property are polynomial / sesquilinear, so Gaussian-integer operands give exactly '
      'representable results; TLC evaluates the dense definitions (first argument of the inner product conjugated, '
      'index order of every leg), recomputes the environment blocks by its own index-sum recursion, and checks at every '
      'site position that <B|Heff|A> equals the matrix element of the dense operator between the full states, and that '
      'Heff is Hermitian whenever Mat(H) is. Bra and ket have independent bond profiles, charges are on.',
      'Data-independent control flow (multilinearity); sizes L <= 3, d <= 3, D <= 3; two-site check compares with the '
      'index sum on merged tensors.')
claim('C06',
      'TLC trace validation (TraceHamiltonian.tla): the MPO tensors returned by each constructor are contracted by TLC and '
      'compared entry by entry with the textbook operator defined in Hamiltonian.tla from the parameters (fermions: '
      'creation / annihilation operators on occupation configurations with explicit Jordan-Wigner parities); Hermiticity, '
      'block sparsity of every tensor and charge conservation evaluated exactly on the same data',
      'Exact comparison (integers after scaling; spin-1 and Bose-Hubbard after a similarity transformation by site weights) '
      'for every L from 1 up to the dense reach of TLC and for parameter tuples in {-2..2}^3 covering all vanishing-coupling '
      'combinations; the dense operator is trilinear in the parameters, so the thorough tier (all 124 non-zero tuples per '
      'model and size) determines it for all real parameters. An exception for a non-zero operator is a rejected event '
      '(this is how finding F1 showed for L = 1 / vanishing couplings).',
      'L <= 3 (d = 2: 5) because TLC contracts d^L x d^L matrices; complex Gaussian-integer coefficient vectors for the '
      'linear fermionic operators; Jordan-Wigner convention: Z string to the right, as linear_fermionic_mpo documents by '
      'construction.')
claim('C07',
      'TLC trace validation (TraceHamiltonian.tla): for n <= 4 orbitals (spinless) / n <= 2 (spin-orbital) TLC contracts the '
      'returned tensors and compares with the second-quantized operator MolTerms / SpinMolTerms of Hamiltonian.tla (fermionic '
      'operators on occupation configurations), and compares the two build paths; for larger n the same definition is '
      'evaluated by the harness in exact integer arithmetic (harness/fock.py) and enters the trace as flags; gauge transform '
      'as mode-N flags',
      'The L sweep (1..6 spinless optimized, 4..6 explicit; 1..3 spin optimized, 2..5 explicit) with unit, dense, symmetric, '
      'zero-padded, exchange-only, sparse and Gaussian-integer coefficient tensors checks Mat(MPO) = Mol(t, v) exactly, '
      'optimized = explicit wherever both exist, block sparsity, and treats any exception inside the documented domain as '
      'a rejected event (findings F1 at L = 1 and F2 at L >= 5 are regressions of this kind). The gauge matrices are '
      'checked for every rotated pair at L = 4..7 (8 in the thorough tier) with real, rational, Gaussian and generic '
      'complex unitaries.',
      'TLC-exact only up to 16 x 16 Fock matrices; beyond that the oracle is the harness transcription of the same '
      'definition (integer exact); gauge clause tolerance 1e-9.')
claim('C14',
      'TLC model checking of the size / breakdown protocol Krylov.tla (all n, m, kdim of the bounds) + TLC trace validation '
      '(TraceKrylov.tla) of real Lanczos / Arnoldi calls against the exactly computed Krylov dimension; factorization '
      'relations as observed predicates (mode N)',
      'What is decided exactly: returned sizes are mutually consistent, the number of Krylov vectors is min(m, kdim) with '
      'kdim computed over the rationals, a warning is issued exactly on early termination, no call raises - for integer and '
      'Gaussian-integer matrices of seven families (generic, degenerate, hidden block structure, scalar, ladder, projector) '
      'and start vectors that are generic, real, unit or confined to an invariant subspace, m = 1 .. n+2. What is observed: '
      'orthonormality, V^H A V = T / H up to the exhaustion point, real alpha, positive beta, Hessenberg form (1e-10 / 1e-9).',
      'The relations themselves are floating-point facts (level other); rounding-level off-diagonals that do not trip the '
      'absolute breakdown threshold of the code are marked ambiguous for the size clause.', category='other')
claim('C15',
      'TLC model checking of routing and of the regime table of Krylov.tla + TLC trace validation (TraceKrylov.tla) of '
      'eigh_krylov / expm_krylov calls: the clauses required in the regime of each call (exhausted iff m >= exact kdim) '
      'must have been observed (oracles numpy eigvalsh, scipy expm)',
      'Routing (hermitian -> Lanczos, general -> Arnoldi) is checked exactly by wrappers; the regime of every call is decided '
      'with exact integers; in the exhausted regime (incl. m > n, invariant start subspaces, defective general matrices) the '
      'exponential must equal expm(dt A) v for both branches and complex dt and the lowest Ritz value must be the smallest '
      'reachable eigenvalue; always lambda_min <= theta_0 <= Rayleigh quotient and norm preservation for imaginary time; '
      'below exhaustion Ritz vectors orthonormal with Ritz values as Rayleigh quotients.',
      'Everything except routing and the regime predicate is numerical (level other); bounds 1e-10 resp. 1e-9 (1+|dt| ||A||).',
      category='other')
claim('C08',
      'TLC model checking of the TDVP programs in Sweep.tla (WellPosed at every local problem, exact time accounting, '
      'symmetric word; negative controls) + TLC trace validation (TraceSweep.tla) of every local problem of real runs: kind, '
      'site, bit-exact time fraction, freshness of both environment blocks, canonical forms; conservation laws as mode-N flags',
      'The single- and two-site sweeps are programs (one micro-operation per statement group of evolution.py) executed by the '
      'model with versioned tensors and stamped environment blocks; TLC checks that every local problem is posed in mixed '
      'canonical form with fresh blocks, that every site receives +2 and every bond -2 half steps per step, and that '
      'dropping an environment update or changing a fraction / sign violates this. Real runs on built-in and random complex '
      'Hermitian MPOs (L = 1..6, several quantum-number sectors, real and complex tensors, 1..3 steps, numiter 1..25, '
      'repeated calls) are observed local problem by local problem; the time argument of each is compared bit-exactly with '
      '+-dt/2, +-dt and each environment block is recomputed from the tensors currently in psi, so a wrong half step or a '
      'stale block is detected independently of how small dt is. Returned norm, H digest, bond dimensions, boundary charges '
      'exact; norm / energy drift 1e-9.',
      'Kernel contract of the Hermitian Krylov exponential (C15); frame inspection of the calling integrator for site '
      'indices; mode-N bounds 1e-9.')
claim('C09',
      'TLC model checking of the symmetry / time accounting of the TDVP programs (Sweep.tla) + TLC trace validation of dt / -dt '
      'pairs of real runs: the recorded word must reduce to the empty word (exact fractions); exactness on complete manifolds '
      'and the reversibility residual as mode-N flags against scipy expm',
      'The discrete facts behind the property - the local-problem word of a step is a palindrome, local times telescope to '
      'one full step per site, a dt run followed by a -dt run cancels flow by flow - are model checked and validated on real '
      'runs with exact fractions, which fails for any re-ordering / fraction / sign change even when the numerical error '
      'would hide under a tolerance. On complete manifolds (full sector multiplicities, with and without quantum numbers, '
      'real / imaginary / complex dt, 1..3 steps, both integrators) the result is compared with expm(-dt n H) v0/||v0||.',
      'KNOWN FINDING (known_findings.json): in quantum-number sectors whose bonds are left-complete for one charge and '
      'right-complete for another, TDVP is observed to be O(dt^3) accurate only; those inputs are reported as KNOWN-FINDING, '
      'all other complete manifolds must be exact to 1e-9. The exactness clause is numerical at its core.')
claim('C10',
      'TLC model checking of the DMRG programs in Sweep.tla + TLC trace validation of every local minimisation of real runs '
      '(site / pair, fresh blocks, canonical forms, Ritz value <= Rayleigh quotient, bit-identity of the reported energies '
      'with the last local value of each sweep); variational / consistency / monotonicity clauses as mode-N flags against '
      'dense eigvalsh in the charge sector',
      'WellPosed + "lowest Ritz value <= Rayleigh quotient of the start tensor" make the energy sequence non-increasing '
      'across all local steps; both are checked on every observed local problem. The reported energy of each sweep must be '
      'bit-identical (hex) to the Ritz value of the last local problem of that sweep. Oracles named by the property: dense '
      '<psi|H|psi> of the returned state, unit norm, eigvalsh of H restricted to the charge sector of psi, energy of the '
      'normalized start state; complete manifold + 25 iterations + 3 sweeps => exact sector ground energy. Quantum numbers '
      'are on in 70 % of the runs, spectra are optionally shifted positive, small bond dimensions, few Lanczos iterations, '
      'repeated invocations.',
      'Mode-N bounds 1e-9 ||H|| (consistency 1e-8, exactness 1e-7); frame inspection for site indices.')
claim('C02',
      'TLC model checking of operation histories in Sector.tla (negative control reproducing finding F3) + TLC trace '
      'validation (TraceSector.tla) of random real histories: the invariants are evaluated on the projection of EVERY live '
      'object after EVERY public call',
      'The property quantifies over histories. The model enumerates all histories of bounded depth over the operation '
      'alphabet (kind of container, boundary charges, raise on a valid object); the charge algebra of each factorization is '
      'model checked in BondOps.tla / Canon.tla. Real histories of 7-15 operations on the same objects (construction, '
      'orthonormalize, compress, +, -, @, apply, from_vector on compressible vectors, Hamiltonian constructors incl. encoded '
      'Fermi-Hubbard charges, graph-to-MPO conversion, split/merge, TDVP and DMRG with quantum numbers on, truncating two-site '
      'variants, non-zero leading charges) are validated state by state: list lengths = tensor dimensions, additive rule on '
      'every tensor (own mask code), total charges of non-zero states unchanged by in-place algorithms, no exception.',
      'Sparsity enters as a flag computed by the harness (independent mask code); lengths, pool bookkeeping, boundary '
      'charges compared by TLC.')
claim('C19',
      'TLC model checking of the ownership rules Heap.tla (NoSharing, Frozen; negative control with a dropped copy) + TLC '
      'trace validation (TraceHeap.tla) of random real histories with byte-level digests of all live objects before / after '
      'every call, pairwise memory-sharing analysis, and in-place pokes of every fresh result + replay of TLC-simulated '
      'behaviours of Heap.tla on real MPS objects (live set, sharing relation and changed digests compared after every action)',
      'Every public operation used in the histories is catalogued as pure / fresh / in-place(target); after each call the '
      'set of objects whose SHA-256 digest changed must be within {target}, no two distinct objects may share a NumPy buffer, '
      'a container or a graph node / edge record, and after every fresh result each of its buffers is perturbed in place '
      '(plus zero_qnumbers) while all other objects are re-digested - which is how a dropped .copy() of boundary charges, a '
      'constructor keeping the caller\'s qd array, or an in-place update of the Hamiltonian surface.',
      'Dense conversion results are excluded from NoSharing (the property does not forbid views); catalogue = the '
      'operations exercised by harness/histgen.py.')

def main():
    props = [json.loads(l) for l in open(os.path.join(VERIF, 'properties.jsonl'))]
    checks = []
    na = []
    for p in props:
        pid = p['id']
        if pid in CLAIMED:
            cat, tech, text, note, ref = CLAIMED[pid]
            checks.append(dict(property_id=pid,
                               quick_cmd=f'./check {pid} --tier quick',
                               thorough_cmd=f'./check {pid} --tier thorough',
                               evidence_file=f'evidence/{pid}.json',
                               replay_cmd_template=f'./check {pid} --replay {{path}}',
                               engine='tlc+harness',
                               level_claimed=dict(category=cat, text=text, design_ref=ref),
                               level_note=note, technique=tech))
        else:
            na.append(dict(property_id=pid, reason=NOT_YET.get(pid, 'check under construction in this round: the '
                           'specification module and trace driver for this property are not committed yet')))
    man = dict(version=1,
               setup_cmd='./check setup',
               hooks=dict(guard='PYTENET_VERIF',
                          enable='PYTENET_VERIF=1 in the environment of ./check: the harness wraps module attributes '
                                 'of the pytenet package imported from /repo at run time (harness/wrap.py); no source '
                                 'line of /repo is changed by hooks',
                          baseline_off_cmd='cd /repo && /venv/bin/python -m pytest -ra -q -p no:cacheprovider --timeout=900',
                          source_commits=[], add_only=True),
               engines=[dict(name='tlc+harness', path='harness/', serves_properties=sorted(CLAIMED),
                             kind_free_text='TLA+ specifications under spec/ checked with TLC 1.8 (exhaustive model '
                             'checking, simulation, trace validation); Python drivers under harness/ run the real '
                             'pytenet code from /repo, record traces and replay TLC-generated behaviours')],
               checks=checks,
               notes=('Repairs of genuine defects are fix: commits in /repo (five), listed in known_findings.json as fixed; one known finding (C09). '
                      'Every trace specification has two levels of clauses (DESIGN.md 1.3): clauses of the property, and Strict-only clauses that '
                      'describe the code beyond the property (diagnostics "spec: ..."). A trace that only leaves the specification is reported as a '
                      'non-fatal SPEC-DEVIATION line; VIOLATION lines and exit status 1 are reserved for clauses of the property the check decides. '
                      'VERIF_REPO / VERIF_OUT redirect the library tree and the evidence directory (mutant tools); Apalache is used for two '
                      'inductive invariants (C19 every tier, C02 thorough tier) when apalache-mc is on PATH.'),
               not_applicable=na)
    with open(os.path.join(VERIF, 'MANIFEST.json'), 'w') as f:
        json.dump(man, f, indent=1)
    print(f'MANIFEST.json: {len(checks)} checks, {len(na)} not claimed')


if __name__ == '__main__':
    main()
