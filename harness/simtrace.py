"""Parse behaviours written by `tlc -simulate file=<prefix>,num=N` (one TLA+ module per behaviour)."""
import glob
import os
import re

from . import tlaval


def parse_behaviour(path):
    text = open(path).read()
    states = []
    parts = re.split(r'\n\\\* <(\w+)[^\n]*>\nSTATE_\d+ ==\s*\n', '\n' + text)
    # parts: [header, action1, body1, action2, body2, ...]
    for k in range(1, len(parts) - 1, 2):
        action, body = parts[k], parts[k + 1]
        body = body.split('\n====')[0]
        st = {}
        # conjuncts start with "/\ var = " at column 0
        chunks = re.split(r'(?m)^/\\ (\w+) = ', body)
        for j in range(1, len(chunks) - 1, 2):
            st[chunks[j]] = tlaval.parse(chunks[j + 1].strip())
        states.append((action, st))
    return states


def load_all(prefix):
    out = []
    for p in sorted(glob.glob(prefix + '_*')):
        try:
            out.append(parse_behaviour(p))
        finally:
            os.remove(p)
    return out


def as_map(v):
    """TLA+ function value -> dict (sequences become 1-based dicts)."""
    if isinstance(v, list):
        return {i + 1: x for i, x in enumerate(v)}
    return v


def as_set(v):
    if isinstance(v, tuple) and v and v[0] == 'set':
        return list(v[1])
    if isinstance(v, list):
        return list(v)
    raise TypeError(v)
