"""Run trace validation over many traces in parallel TLC processes (each `-workers 1`, depth-first queue)."""
import concurrent.futures as cf
import os

from . import tlc


def validate_chunks(ctx, module, tag, traces, chunk=2000, extra_data=None, max_procs=None, timeout=1800, **kw):
    """Returns {global trace index (0-based): diagnostics} for the traces that were not accepted."""
    if not traces:
        return {}
    hist = ctx.notes.setdefault('event_histogram', {})
    for tr in traces:
        for r in tr:
            k = str(r.get('ev')) + ((':' + str(r.get('kind'))) if r.get('kind') is not None and isinstance(r.get('kind'), str) else '')
            hist[k] = hist.get(k, 0) + 1
    chunks = [(i, traces[i:i + chunk]) for i in range(0, len(traces), chunk)]
    max_procs = max_procs or min(len(chunks), max(1, (os.cpu_count() or 4)))
    bad = {}

    def one(arg):
        ci, (start, trs) = arg
        data = dict(traces=trs)
        if extra_data:
            data.update(extra_data)
        b = ctx.validate(module, f'{tag}_{ci}', data, len(trs), timeout=timeout, **kw)
        return start, b

    with cf.ThreadPoolExecutor(max_workers=max_procs) as ex:
        for start, b in ex.map(one, list(enumerate(chunks))):
            for tid, why in b.items():
                bad[start + tid - 1] = why
    return bad


def pmap(fn, items, procs=None, min_items=64):
    """Process-parallel map for driver work (the real library is run in forked workers); fn must be a module-level function
    of one picklable argument.  Small workloads run inline."""
    import multiprocessing as mp
    items = list(items)
    procs = procs or min(len(items), max(1, (os.cpu_count() or 4) - 2))
    if procs <= 1 or len(items) < min_items:
        return [fn(x) for x in items]
    ctxm = mp.get_context('fork')
    with ctxm.Pool(processes=procs) as pool:
        return pool.map(fn, items, chunksize=max(1, len(items) // (procs * 8)))
