"""Run trace validation over many traces in parallel TLC processes (each `-workers 1`, depth-first queue)."""
import concurrent.futures as cf
import os

from . import tlc


def _run_chunks(ctx, module, tag, traces, chunk, extra_data, max_procs, timeout, kw):
    chunks = [(i, traces[i:i + chunk]) for i in range(0, len(traces), chunk)]
    max_procs = max_procs or min(len(chunks), max(1, (os.cpu_count() or 4)))
    bad = {}

    def one(arg):
        ci, (start, trs) = arg
        data = dict(traces=trs)
        if extra_data:
            data.update(extra_data)
        b = ctx.validate(module, f'{tag}_{ci}', data, len(trs), timeout=timeout, **kw)
        return start, b

    with cf.ThreadPoolExecutor(max_workers=max_procs) as ex:
        for start, b in ex.map(one, list(enumerate(chunks))):
            for tid, why in b.items():
                bad[start + tid - 1] = why
    return bad


def is_advisory(why):
    return bool(why and len(why[0]) > 2 and str(why[0][2]).startswith('spec: '))


def validate_chunks(ctx, module, tag, traces, chunk=2000, extra_data=None, max_procs=None, timeout=1800, relax=None, **kw):
    """Returns {global trace index (0-based): diagnostics} for the traces that violate a clause of the PROPERTY.

    Two levels of clauses.  A trace spec describes what the implementation does, which is more than what the property demands
    (sweep order, exact intermediate dimensions, which augmenting paths, exact post-states of a rewrite ...).  Clauses of that
    kind are guarded by `Strict` in the trace spec and their diagnostic starts with "spec: ".  Pass 1 validates every trace
    against the full specification (Data.strict = TRUE).  A trace rejected by a "spec: " clause is validated again with
    Data.strict = FALSE after `relax` has removed the events that only the strict clauses consume: if it is accepted, the
    implementation deviates from the specification but the property clauses hold - reported as a non-fatal SPEC-DEVIATION line
    and in the evidence; if it is rejected, the violation is reported with the property clause that failed."""
    if not traces:
        return {}
    hist = ctx.notes.setdefault('event_histogram', {})
    for tr in traces:
        for r in tr:
            k = str(r.get('ev')) + ((':' + str(r.get('kind'))) if r.get('kind') is not None and isinstance(r.get('kind'), str) else '')
            hist[k] = hist.get(k, 0) + 1
    # observer code raised inside the library (a private helper changed its signature, ...): what it recorded is unreliable, the
    # trace is validated on its result clauses only
    broken = {i for i, tr in enumerate(traces) if any(r.get('ev') == 'hook_error' for r in tr)}
    if broken:
        traces = list(traces)
        for i in broken:
            t = [r for r in traces[i] if r.get('ev') != 'hook_error']
            traces[i] = relax(t) if relax else t
            ctx.deviation('spec: observation hooks raised inside the harness (internal call signatures differ from the specification): '
                          + 'results-only validation')
    ed = dict(extra_data or {})
    ed.setdefault('pid', ctx.pid)      # a trace spec shared by several properties evaluates the clauses of the others as strict-only
    strict_idx = [i for i in range(len(traces)) if i not in broken]
    bad = {}
    if strict_idx:
        b1 = _run_chunks(ctx, module, tag, [traces[i] for i in strict_idx], chunk, dict(ed, strict=True), max_procs, timeout, kw)
        bad = {strict_idx[j]: why for j, why in b1.items()}
    if broken:
        bidx = sorted(broken)
        b0 = _run_chunks(ctx, module, tag + 'h', [traces[i] for i in bidx], chunk, dict(ed, strict=False), max_procs, timeout, kw)
        for j, why in b0.items():
            bad[bidx[j]] = why
    # binding self-test (harness/selftest.py): corrupted copies of accepted traces must be rejected by the full specification
    from . import selftest

    def _runner(variants):
        t0, s0 = ctx.traces, ctx.states
        try:
            return _run_chunks(ctx, module, tag + 'b', variants, max(1, len(variants)), dict(ed, strict=True), 1, timeout, kw)
        finally:
            ctx.traces = t0          # corrupted copies are not traces of the implementation
    selftest.run(ctx, module, tag, traces, set(bad) | broken, _runner)
    adv = {i: why for i, why in bad.items() if is_advisory(why) and i not in broken}
    if adv:
        idxs = sorted(adv)
        relaxed = [(relax(traces[i]) if relax else traces[i]) for i in idxs]
        bad2 = _run_chunks(ctx, module, tag + 'r', relaxed, chunk, dict(ed, strict=False), max_procs, timeout, kw)
        for j, i in enumerate(idxs):
            if j in bad2:
                if is_advisory(bad2[j]):
                    # rejected with Strict = FALSE, so a property clause failed; the diagnostic chain of the trace spec named a
                    # strict-only clause first (a defect of the diagnostics, not of the verdict)
                    w = [list(x) for x in bad2[j]]
                    w[0][2] = 'a property clause failed in the relaxed pass (diagnostics name only: ' + str(w[0][2]) + ')'
                    bad[i] = w
                    ctx.notes['diagnostic_chain_gaps'] = ctx.notes.get('diagnostic_chain_gaps', 0) + 1
                else:
                    bad[i] = bad2[j]
            else:
                del bad[i]
                ctx.deviation(str(adv[i][0][2]))
    return bad


def pmap(fn, items, procs=None, min_items=64):
    """Process-parallel map for driver work (the real library is run in forked workers); fn must be a module-level function
    of one picklable argument.  Small workloads run inline."""
    import multiprocessing as mp
    items = list(items)
    procs = procs or min(len(items), max(1, (os.cpu_count() or 4) - 2))
    if procs <= 1 or len(items) < min_items:
        return [fn(x) for x in items]
    ctxm = mp.get_context('fork')
    with ctxm.Pool(processes=procs) as pool:
        return pool.map(fn, items, chunksize=max(1, len(items) // (procs * 8)))
