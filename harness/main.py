import argparse
import importlib
import os
import sys

from . import common


def main():
    ap = argparse.ArgumentParser()
    ap.add_argument('target')
    ap.add_argument('--tier', default=os.environ.get('VERIF_TIER', 'quick'), choices=['quick', 'thorough'])
    ap.add_argument('--replay', default=None)
    a = ap.parse_args()
    seed = int(os.environ.get('VERIF_SEED', '0') or 0)
    if a.target == 'setup':
        from . import setup
        sys.exit(setup.main())
    if a.target == 'selftest':
        from . import selftest
        sys.exit(selftest.main())
    pid = a.target.upper()
    mod = importlib.import_module(f'harness.props.{pid.lower()}')
    level = getattr(mod, 'LEVEL', 'model_checking')
    sys.exit(common.run_check(pid, mod.run, a.tier, seed, level, a.replay))


if __name__ == '__main__':
    main()
