"""Generators and recorders for the block-sparse factorizations (shared by C11, C12, C01, C13)."""
import itertools

import numpy as np

from .observe import OffLattice, snap_array_gauss, digest_arrays

ALPH = (-1, 0, 2)
ALPH_BIG = (-(1 << 16), 0, (1 << 16) + 1)


def layouts(maxdim, alph=ALPH):
    for m in range(1, maxdim + 1):
        for n in range(1, maxdim + 1):
            for q0 in itertools.product(alph, repeat=m):
                for q1 in itertools.product(alph, repeat=n):
                    yield m, n, list(q0), list(q1)


def random_layout(rng, maxm, maxn, nq=3):
    m, n = int(rng.integers(1, maxm + 1)), int(rng.integers(1, maxn + 1))
    kind = rng.integers(0, 6)
    lo, hi = (-2, 3) if nq == 3 else (-3, 4)
    q0 = rng.integers(lo, hi, size=m)
    q1 = rng.integers(lo, hi, size=n)
    if kind == 0:
        q0 = np.sort(q0)
    elif kind == 1:
        q1 = np.sort(q1)
    elif kind == 2:
        q0, q1 = np.sort(q0), np.sort(q1)
    elif kind == 3:
        q0[:] = q0[0]
    elif kind == 4:
        q0 = q0 * ((1 << 16) + 1)
        q1 = q1 * ((1 << 16) + 1)
    return m, n, [int(x) for x in q0], [int(x) for x in q1]


def mask(q0, q1):
    return np.equal.outer(np.asarray(q0), np.asarray(q1))


def generic_matrix(rng, q0, q1, cplx, deficient=False):
    m, n = len(q0), len(q1)
    A = rng.normal(size=(m, n)) + (1j * rng.normal(size=(m, n)) if cplx else 0)
    A = np.where(mask(q0, q1), A, 0)
    if deficient:
        # make some blocks rank deficient or empty
        for q in set(q0) & set(q1):
            rows = [i for i in range(m) if q0[i] == q]
            cols = [j for j in range(n) if q1[j] == q]
            r = rng.integers(0, 3)
            if r == 0:
                A[np.ix_(rows, cols)] = 0
            elif r == 1 and len(rows) > 1:
                A[np.ix_(rows, cols)] = np.outer(A[rows, cols[0]], np.ones(len(cols)))
    return A


def monomial_matrix(rng, q0, q1, cplx):
    """every column has at most one non-zero entry (small integer times a unit phase), inside its charge block"""
    m, n = len(q0), len(q1)
    A = np.zeros((m, n), dtype=complex if cplx else float)
    phases = [1, -1, 1j, -1j] if cplx else [1, -1]
    for j in range(n):
        rows = [i for i in range(m) if q0[i] == q1[j]]
        if rows and rng.random() < 0.85:
            A[rows[int(rng.integers(len(rows)))], j] = int(rng.integers(1, 4)) * phases[int(rng.integers(len(phases)))]
    return A


def gen_perm_matrix(rng, q0, q1, cplx, weights=None):
    """generalized permutation matrix inside the charge blocks: each row and column at most one non-zero entry with
    modulus sqrt(w), w a perfect square.  Returns A and the list of (charge, w) of ALL singular value slots."""
    m, n = len(q0), len(q1)
    A = np.zeros((m, n), dtype=complex if cplx else float)
    phases = [1, -1, 1j, -1j] if cplx else [1, -1]
    slots = []
    wi = 0
    for q in sorted(set(q0) & set(q1)):
        rows = [i for i in range(m) if q0[i] == q]
        cols = [j for j in range(n) if q1[j] == q]
        k = min(len(rows), len(cols))
        rr = list(rng.permutation(rows))[:k]
        cc = list(rng.permutation(cols))[:k]
        for a in range(k):
            if weights is not None:
                w = weights[wi % len(weights)]
                wi += 1
            else:
                w = int(rng.choice([0, 1, 1, 4, 4, 9, 16]))
            s = int(round(np.sqrt(w)))
            A[rr[a], cc[a]] = s * phases[int(rng.integers(len(phases)))]
            slots.append((q, w))
    return A, slots


def exp10(x):
    if not np.isfinite(x):
        return 99
    if x <= 0:
        return -99
    return int(np.floor(np.log10(x)))


def supp(M):
    return (np.asarray(M) != 0).astype(int).tolist()


def try_gauss(M, what):
    try:
        return snap_array_gauss(M, what)
    except OffLattice:
        return None


def record_qr(ptn, A, q0, q1, exact_wanted, full_rank_generic):
    """one call of bond_ops.qr -> trace record"""
    A = np.array(A)
    q0a, q1a = np.array(q0), np.array(q1)
    before = digest_arrays([A, q0a, q1a])
    m, n = A.shape
    try:
        Q, R, qi = ptn.qr(A, q0a, q1a)
    except BaseException as ex:  # noqa
        return dict(ev='raise', exc=f'{type(ex).__name__}: {str(ex)[:60]}', m=m, n=n, q0=q0, q1=q1)
    Q, R = np.asarray(Q), np.asarray(R)
    rec = dict(ev='qr', m=m, n=n, q0=[int(x) for x in q0], q1=[int(x) for x in q1])
    try:
        rec['qi'] = [int(x) for x in np.asarray(qi).reshape(-1)]
        ok_shape = Q.ndim == 2 and R.ndim == 2 and Q.shape[0] == m and R.shape[1] == n and Q.shape[1] == R.shape[0] == len(rec['qi'])
        if not ok_shape:
            return dict(ev='raise', exc=f'shape mismatch Q{Q.shape} R{R.shape} qi{len(rec["qi"])}', m=m, n=n, q0=q0, q1=q1)
        rec['sf'], rec['ss'] = supp(Q), supp(R)
        # relative residual, computed after dividing by the largest entry (the Frobenius norm of a matrix with entries around
        # 1e-170 underflows to zero, of one with entries around 1e170 overflows)
        amax = float(np.max(np.abs(A), initial=0.0))
        if amax > 0 and (amax < 1e-3 or amax > 1e3):
            resid = float(np.linalg.norm((Q @ (R / amax)) - A / amax)) / max(1.0, float(np.linalg.norm(A / amax)))
        else:
            resid = float(np.linalg.norm(Q @ R - A)) / max(1.0, float(np.linalg.norm(A)))
        iso = float(np.linalg.norm(Q.conj().T @ Q - np.eye(Q.shape[1])))
        rec.update(resid_ok=bool(resid <= 1e-10), resid_exp=exp10(resid), iso_ok=bool(iso <= 1e-10), iso_exp=exp10(iso),
                   dtype_ok=bool(np.issubdtype(Q.dtype, np.inexact) and np.issubdtype(R.dtype, np.inexact)
                                 and (np.iscomplexobj(A) or not np.iscomplexobj(Q))),
                   generic_full_rank=bool(full_rank_generic), exact=False,
                   unchanged=bool(before == digest_arrays([A, q0a, q1a])))
        if exact_wanted:
            gA, gQ, gR = try_gauss(A, 'A'), try_gauss(Q, 'Q'), try_gauss(R, 'R')
            if gA is not None and gQ is not None and gR is not None:
                rec.update(exact=True, A=gA, F=gQ, S=gR)
    except BaseException as ex:  # noqa
        return dict(ev='raise', exc=f'observer: {type(ex).__name__}: {str(ex)[:60]}', m=m, n=n, q0=q0, q1=q1)
    return rec


def dense_spectrum(A):
    s = np.linalg.svd(np.asarray(A, dtype=complex), compute_uv=False)
    return np.sort(s)[::-1]


def record_svd(ptn, A, q0, q1, tn, td, slots=None):
    """one call of split_matrix_svd with tol = tn/td.  slots: (charge, w) of all singular values for exact instances"""
    A = np.array(A)
    q0a, q1a = np.array(q0), np.array(q1)
    before = digest_arrays([A, q0a, q1a])
    m, n = A.shape
    tol = tn / td
    try:
        u, s, v, qi = ptn.split_matrix_svd(A, q0a, q1a, tol)
    except BaseException as ex:  # noqa
        return dict(ev='raise', exc=f'{type(ex).__name__}: {str(ex)[:60]}', m=m, n=n, q0=q0, q1=q1, tn=tn, td=td)
    try:
        u, s, v = np.asarray(u), np.asarray(s), np.asarray(v)
        qi = [int(x) for x in np.asarray(qi).reshape(-1)]
        D = len(qi)
        if not (u.ndim == 2 and v.ndim == 2 and u.shape == (m, D) and v.shape == (D, n)):
            return dict(ev='raise', exc=f'shape mismatch u{u.shape} v{v.shape} s{s.shape} q{D}', m=m, n=n, q0=q0, q1=q1, tn=tn, td=td)
        rec = dict(ev='svd', m=m, n=n, q0=[int(x) for x in q0], q1=[int(x) for x in q1], tn=tn, td=td, qi=qi,
                   sf=supp(u), ss=supp(v), s_len=[int(s.shape[0])] if s.ndim == 1 else [-1],
                   input_unchanged=bool(before == digest_arrays([A, q0a, q1a])))
        nrmA = float(np.linalg.norm(A))
        allzero = nrmA == 0
        rec['allzero'] = bool(allzero)
        rec['s_positive'] = bool(allzero or np.all(s > 0))
        full = dense_spectrum(A)
        W = float(np.sum(full**2))
        disc = float(np.sum(full[D:]**2))       # discarded weight according to the independent dense spectrum
        err = float(np.linalg.norm((u * s) @ v - A))
        scale = max(1.0, nrmA)
        flags = []
        flags.append(abs(err - np.sqrt(disc)) <= 1e-9 * scale)                      # error identity
        if not allzero:
            rel = disc / W
            flags.append(rel <= tol + 1e-12)                                          # tolerance bound
            # kept values are the largest ones of the independent dense spectrum
            flags.append(np.allclose(np.sort(s)[::-1], full[:D], rtol=1e-9, atol=1e-10 * scale))
            if D > 0:
                smin2 = float(np.min(s)**2) / W
                flags.append(rel + smin2 > tol - 1e-12)                               # maximality
            else:
                flags.append(False)
            if tn == 0:
                flags.append(err <= 1e-10 * scale)
        iso = max(float(np.linalg.norm(u.conj().T @ u - np.eye(D))), float(np.linalg.norm(v @ v.conj().T - np.eye(D)))) \
            if (D > 0 and not (allzero)) else 0.0
        if allzero:
            flags = [err == 0.0]
        rec.update(resid_ok=bool(all(flags)), resid_exp=exp10(abs(err - np.sqrt(disc)) / scale), iso_ok=bool(iso <= 1e-10),
                   iso_exp=exp10(iso), dtype_ok=bool(np.issubdtype(u.dtype, np.inexact) and np.issubdtype(v.dtype, np.inexact)),
                   exact=False)
        if slots is not None and not allzero:
            gA, gU, gV = try_gauss(A, 'A'), try_gauss(u, 'u'), try_gauss(v, 'v')
            sv = np.rint(s)
            if gA is not None and gU is not None and gV is not None and np.max(np.abs(s - sv), initial=0) < 1e-9:
                rec.update(exact=True, A=gA, F=gU, S=gV, sv=[int(x) for x in sv],
                           allw=[int(w) for _, w in slots], allq=[int(q) for q, _ in slots])
        return rec
    except BaseException as ex:  # noqa
        return dict(ev='raise', exc=f'observer: {type(ex).__name__}: {str(ex)[:60]}', m=m, n=n, q0=q0, q1=q1, tn=tn, td=td)
