"""C03 - MPS/MPO arithmetic agrees with dense linear algebra.

M: Chain.tla: the block / Kronecker constructions satisfy the homomorphism laws for EVERY pair of operands of a bounded
   universe (multilinear => all complex entries of those shapes), cross-validating the two formulations of the meaning.
E: histories over a pool of real MPS / MPO objects with Gaussian-integer entries and U(1) sectors (add, sub, matmul,
   apply, identity, chained expressions, dense / sparse conversion); TraceChain.tla contracts every result tensor by
   explicit index sums and compares with the law evaluated on the operands' dense meaning.
N: from_vector(tol = 0) and split / merge round trips are checked in C13 / C12 (SVD based, mode N).
"""
import numpy as np

from .. import common, canon
from ..observe import snap_array_gauss, snap_gauss, OffLattice
from ..parallel import validate_chunks


def tens(obj):
    return [snap_array_gauss(a, 'tensor') for a in obj.A]


def family(ptn, rng, L, d):
    """charges shared by all objects of one history"""
    style = str(rng.choice(['u1', 'u1', 'zero', 'repeated', 'sorted']))
    qd, _ = canon.gen_charges(rng, L, d, 'mps', style)
    return dict(L=L, d=d, qd=qd, style=style, qs_mps=int(rng.integers(-1, 2)) if rng.random() < 0.4 else 0,
                qs_mpo=int(rng.integers(-1, 2)) if rng.random() < 0.3 else 0, qt_mps=None, qt_mpo=None)


def new_obj(ptn, rng, fam, cls, maxD):
    qs = fam['qs_' + cls]
    qd, qD = canon.gen_charges(rng, fam['L'], fam['d'], cls, fam['style'], qd=fam['qd'], q_start=qs, qtot=fam['qt_' + cls], maxD=maxD)
    fam['qt_' + cls] = qD[-1][0]        # all objects of a class share the boundary charges, so that they can be added
    kind = 'gauss' if rng.random() < 0.7 else 'int'
    return canon.make_object(ptn, rng, cls, qd, qD, kind)


def record_history(ptn, seed, quick):
    rng = np.random.default_rng(seed)
    L = int(rng.choice([1, 1, 2, 2, 3, 3] if quick else [1, 2, 2, 3, 3, 4]))
    d = int(rng.choice([1, 2, 2, 3])) if L <= 2 else 2
    fam = family(ptn, rng, L, d)
    tr = []
    pool = {}       # id -> (cls, obj)
    nid = [0]

    def put(cls, obj, rec):
        nid[0] += 1
        pool[nid[0]] = (cls, obj)
        rec['T'] = tens(obj)
        tr.append(rec)
        return nid[0]

    try:
        maxD = 2 if L >= 3 else 3
        for _ in range(2):
            put('mps', new_obj(ptn, rng, fam, 'mps', maxD), dict(ev='mps', id=nid[0] + 1))
        for _ in range(2):
            put('mpo', new_obj(ptn, rng, fam, 'mpo', 2), dict(ev='mpo', id=nid[0] + 1))
        for _ in range(int(rng.integers(3, 7))):
            mpss = [k for k, (c, o) in pool.items() if c == 'mps' and max(o.bond_dims) <= 8]
            mpos = [k for k, (c, o) in pool.items() if c == 'mpo' and max(o.bond_dims) <= 4]
            op = str(rng.choice(['add_mps', 'sub_mps', 'add_mpo', 'sub_mpo', 'mul', 'apply', 'identity', 'dense_vec', 'dense_mat', 'sparse_mat', 'poke']))
            if op == 'poke' and (mpss or mpos):
                # in-place user modification of a live object between operations
                a = int(rng.choice(mpss + mpos))
                cfac = int(rng.choice([2, -1, 3]))
                cls, o = pool[a]
                k = int(rng.integers(L))

                def dense_event():
                    if cls == 'mps':
                        tr.append(dict(ev='dense_vec', a=a, v=snap_array_gauss(o.as_vector(), 'as_vector')))
                    else:
                        sp = bool(rng.integers(2))
                        m = o.as_matrix(sparse_format=sp)
                        tr.append(dict(ev='dense_mat', a=a, sparse=sp, m=snap_array_gauss(m.toarray() if sp else m, 'as_matrix')))
                if max(o.bond_dims) <= (8 if cls == 'mps' else 4):
                    dense_event()           # the dense form is asked for before ...
                if rng.random() < 0.5:
                    o.A[k] *= cfac
                else:
                    o.A[k] = o.A[k] * cfac
                tr.append(dict(ev='poke', a=a, cls=cls, c=cfac))
                if max(o.bond_dims) <= (8 if cls == 'mps' else 4):
                    dense_event()           # ... and after the modification
                continue
            if op in ('add_mps', 'sub_mps') and mpss:
                a, b = int(rng.choice(mpss)), int(rng.choice(mpss))
                # boundary charges must agree (library precondition)
                if not (np.array_equal(pool[a][1].qD[0], pool[b][1].qD[0]) and np.array_equal(pool[a][1].qD[-1], pool[b][1].qD[-1])):
                    continue
                r = pool[a][1] + pool[b][1] if op == 'add_mps' else pool[a][1] - pool[b][1]
                put('mps', r, dict(ev='add_mps', r=nid[0] + 1, a=a, b=b, alpha=1 if op == 'add_mps' else -1))
            elif op in ('add_mpo', 'sub_mpo') and mpos:
                a, b = int(rng.choice(mpos)), int(rng.choice(mpos))
                if not (np.array_equal(pool[a][1].qD[0], pool[b][1].qD[0]) and np.array_equal(pool[a][1].qD[-1], pool[b][1].qD[-1])):
                    continue
                r = pool[a][1] + pool[b][1] if op == 'add_mpo' else pool[a][1] - pool[b][1]
                put('mpo', r, dict(ev='add_mpo', r=nid[0] + 1, a=a, b=b, alpha=1 if op == 'add_mpo' else -1))
            elif op == 'mul' and mpos:
                a, b = int(rng.choice(mpos)), int(rng.choice(mpos))
                put('mpo', pool[a][1] @ pool[b][1], dict(ev='mul', r=nid[0] + 1, a=a, b=b))
            elif op == 'apply' and mpos and mpss:
                a, b = int(rng.choice(mpos)), int(rng.choice(mpss))
                put('mps', ptn.apply_operator(pool[a][1], pool[b][1]), dict(ev='apply', r=nid[0] + 1, a=a, b=b))
            elif op == 'identity':
                sc = int(rng.integers(-3, 4)) or 2
                idm = ptn.MPO.identity(fam['qd'], L, scale=sc, dtype=complex if rng.random() < 0.5 else float)
                put('mpo', idm, dict(ev='identity', r=nid[0] + 1, d=d, L=L, scale=[sc, 0]))
            elif op == 'dense_vec' and mpss:
                a = int(rng.choice(mpss))
                tr.append(dict(ev='dense_vec', a=a, v=snap_array_gauss(pool[a][1].as_vector(), 'as_vector')))
            elif op in ('dense_mat', 'sparse_mat') and mpos:
                a = int(rng.choice(mpos))
                m = pool[a][1].as_matrix(sparse_format=(op == 'sparse_mat'))
                m = m.toarray() if op == 'sparse_mat' else m
                tr.append(dict(ev='dense_mat', a=a, sparse=(op == 'sparse_mat'), m=snap_array_gauss(m, 'as_matrix')))
        # mode N: dense and sparse forms agree also for operators of tiny / huge magnitude (relative comparison)
        mpos = [k for k, (c, o) in pool.items() if c == 'mpo' and max(o.bond_dims) <= 4]
        if mpos:
            o = pool[int(rng.choice(mpos))][1]
            sc = ptn.MPO(o.qd, [q.tolist() for q in o.qD], fill='postpone')
            f = float(rng.choice([1e-3, 1e-4, 1e-5, 1e3, 1e5]))
            sc.A = [np.array(a, dtype=complex) * f for a in o.A]
            if rng.random() < 0.5 and L >= 2:
                sc.A[0] = sc.A[0] * 1e-17
                sc.A[-1] = sc.A[-1] * 1e17
            dn = sc.as_matrix()
            sp = sc.as_matrix(sparse_format=True).toarray()
            # scale of the comparison: the same contraction with entry-wise absolute values (operators such as
            # X - X denote 0 and differ between the two forms by rounding of the individual paths only)
            ab = ptn.MPO(o.qd, [q.tolist() for q in o.qD], fill='postpone')
            ab.A = [np.abs(a) for a in sc.A]
            ref = float(np.max(ab.as_matrix())) if dn.size else 0.0
            tr.append(dict(ev='flag', what=f'dense and sparse matrix forms differ for an operator of magnitude {f:g}^L',
                           ok=bool(np.max(np.abs(dn - sp), initial=0) <= 1e-12 * ref)))
    except OffLattice as ex:
        tr.append(dict(ev='raise', exc=f'OffLattice: {ex}'))
    except BaseException as ex:  # noqa
        tr.append(dict(ev='raise', exc=f'{type(ex).__name__}: {str(ex)[:80]}'))
    return tr


LAWS = ['AddLaw', 'MulLaw', 'ApplyLaw', 'TransferLaw']
G01 = '{<<0,0>>,<<1,0>>}'
G01i = '{<<0,0>>,<<1,0>>,<<0,1>>}'


def run(ctx):
    ptn = common.import_repo()
    rng = np.random.default_rng(ctx.seed * 17 + 3)
    ctx.rule = ('model: every pair of operands with entries in ENT on the listed shapes; traces: one per history of 7-11 '
                'operations over a pool of Gaussian-integer MPS/MPO with shared U(1) charges; non-trivial = history with a '
                'chained operation (an operand that is itself a result); distinct = distinct seed')
    ctx.assumptions += ['control flow of the arithmetic routines is data independent (only asserts depend on data), so '
                        'agreement on integer / Gaussian-integer entries of a shape extends to all entries by multilinearity',
                        'sizes: L <= 4, d <= 3, fused bond dimensions <= 16']
    ctx.model('Chain', 'm_mps_L2', constants=dict(L=2, D=1, Kind='"mps"'), defs=dict(ENT=G01i), invariants=LAWS)
    ctx.model('Chain', 'm_mps_L3', constants=dict(L=3, D=1, Kind='"mps"'), defs=dict(ENT=G01), invariants=LAWS)
    ctx.model('Chain', 'm_mpo_L1', constants=dict(L=1, D=1, Kind='"mpo"'), defs=dict(ENT=G01i), invariants=LAWS)
    ctx.model('Chain', 'm_apply_L2', constants=dict(L=2, D=1, Kind='"apply"'), defs=dict(ENT='{<<0,0>>,<<0,1>>}'), invariants=LAWS)
    if not ctx.quick:
        ctx.model('Chain', 'm_mps_L2_D2', constants=dict(L=2, D=2, Kind='"mps"'), defs=dict(ENT=G01), invariants=LAWS, timeout=3000)
        ctx.model('Chain', 'm_mpo_L2', constants=dict(L=2, D=1, Kind='"mpo"'), defs=dict(ENT=G01), invariants=LAWS, timeout=3000)
        ctx.model('Chain', 'm_apply_L2_01', constants=dict(L=2, D=1, Kind='"apply"'), defs=dict(ENT=G01), invariants=LAWS, timeout=3000)
    seeds = [ctx.replay['replay']['seed']] if ctx.replay is not None else [int(x) for x in rng.integers(1 << 30, size=ctx.pick(260, 6000))]
    traces = [record_history(ptn, s, ctx.quick) for s in seeds]
    for s, tr in zip(seeds, traces):
        chained = any(r.get('ev') in ('add_mps', 'add_mpo', 'mul', 'apply') and max(r.get('a', 0), r.get('b', 0)) > 4 for r in tr)
        ctx.count(s, nontrivial=chained)
    ctx.notes['operations'] = sum(len(tr) for tr in traces)
    for tr in traces[1:len(traces):max(1, len(traces) // 4)]:
        ctx.sample([{k: v for k, v in r.items() if k not in ('T', 'v', 'm')} for r in tr])
    bad = validate_chunks(ctx, 'TraceChain', 'tch', traces, chunk=ctx.pick(20, 200), timeout=3000)
    for idx, why in sorted(bad.items())[:40]:
        clause = why[0][2] if why and len(why[0]) > 2 else 'rejected'
        ctx.violation(f'arith:{why[0][1] if why else "?"}:{clause[:60]}', f'history seed {seeds[idx]}: record {why[0][0] if why else "?"}: {clause}',
                      dict(seed=seeds[idx], ops=[{k: v for k, v in r.items() if k not in ('T', 'v', 'm')} for r in traces[idx]]))

    if ctx.replay is not None:
        return
    # ---- the two remaining clauses of C03 (mode N): from_vector at zero tolerance reproduces the vector; merging two neighbouring
    # tensors undoes a zero-tolerance split for every distribution of the singular values.  Recorders shared with C13 / C12.
    from . import c13, c12
    from .. import canon
    fv, fvc = [], []
    for _ in range(ctx.pick(120, 2500)):
        d, n = int(rng.choice([1, 2, 2, 3])), int(rng.choice([1, 2, 3, 4, 5]))
        kind = str(rng.choice(['int', 'product', 'lowrank', 'generic', 'weak', 'weak', 'degenerate', 'degenerate']))
        fv.append(c13.record_from_vector(ptn, rng, d, n, 0.0, kind))
        fvc.append(dict(kind='from_vector', d=d, n=n, tol=0.0, vkind=kind))
        ctx.count(fvc[-1], nontrivial=n >= 2)
    bad = validate_chunks(ctx, 'TraceCanon', 'tfv', fv, chunk=ctx.pick(60, 600), relax=canon.relax)
    for idx, why in sorted(bad.items())[:20]:
        clause = why[0][2] if why and len(why[0]) > 2 else 'rejected'
        ctx.violation(f'arith:from_vector:{clause[:60]}', f'{fvc[idx]}: {clause}', dict(case=fvc[idx]))
    sp, spc = [], []
    for _ in range(ctx.pick(150, 3000)):
        d0, d1 = int(rng.integers(1, 4)), int(rng.integers(1, 4))
        D0, D2 = int(rng.integers(1, 5)), int(rng.integers(1, 5))
        zero = rng.random() < 0.2
        qd0 = [0] * d0 if zero else [int(x) for x in rng.integers(-1, 2, size=d0)]
        qd1 = [0] * d1 if zero else [int(x) for x in rng.integers(-1, 2, size=d1)]
        qD0 = [0] * D0 if zero else [int(x) for x in rng.integers(-1, 2, size=D0)]
        qD2 = [0] * D2 if zero else [int(x) for x in rng.integers(-2, 3, size=D2)]
        distr = ['left', 'right', 'sqrt'][int(rng.integers(3))]
        mono = rng.random() < 0.3
        sp.append([c12.record_split(ptn, rng, d0, d1, D0, D2, qd0, qd1, qD0, qD2, distr, 0.0, bool(rng.integers(2)), mono)])
        spc.append(dict(kind='split', args=[d0, d1, qd0, qd1, qD0, qD2, distr, 0.0, mono]))
        ctx.count(spc[-1], nontrivial=True)
    bad = validate_chunks(ctx, 'TraceBondOps', 'tsp', sp, chunk=ctx.pick(150, 1500))
    for idx, why in sorted(bad.items())[:20]:
        clause = why[0][2] if why and len(why[0]) > 2 else 'rejected'
        ctx.violation(f'arith:split:{clause[:60]}', f'{spc[idx]}: {clause}', dict(case=spc[idx]))

