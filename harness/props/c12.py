"""C12 - block-sparse SVD split truncates exactly the smallest weights within tolerance.

M: BondOps.tla (Kind = "svd"): staged machine with nondeterministic block spectra; TruncationOK (discarded weight <= tol,
   kept >= discarded, maximality, tol = 0 keeps exactly the non-zero values), ProductOK / IsometryOK / CoIsometryOK /
   SparseOK, TruncClosedFormOK (machine = closed form KeepAllowed used on traces).
E: retained_bond_indices on every weight vector of a bounded universe x tolerances incl. values equal to a cumulative
   weight (only where float arithmetic is exact: total a power of 4); split_matrix_svd on generalized permutation
   matrices placed on charge layouts: kept multiset per tolerance rule, exact error identity / isometries on Gaussian
   integers evaluated by TLC.
N: generic spectra: error identity, tolerance bound, maximality, kept = largest of an independent dense SVD, isometry.
"""
import itertools

import numpy as np

from .. import common, bondgen
from ..observe import digest_arrays
from ..parallel import validate_chunks
from .c11 import consts

INV = ['ProductOK', 'IsometryOK', 'CoIsometryOK', 'SparseOK', 'DimOK', 'DummyOK', 'ClosedFormOK', 'TruncationOK', 'TruncClosedFormOK']


def is_pow4(x):
    while x > 1 and x % 4 == 0:
        x //= 4
    return x == 1


def boundary(ws, tn, td):
    W = sum(ws)
    c = 0
    for w in sorted(ws):
        c += w
        if td * c == tn * W:
            return True
    return False


def record_rbi(ptn, ws, tn, td):
    s = np.sqrt(np.array(ws, dtype=float))
    before = digest_arrays([s])
    try:
        idx = ptn.retained_bond_indices(s, tn / td)
        return dict(ev='rbi', ws=[int(w) for w in ws], tn=tn, td=td, idx=[int(i) for i in np.asarray(idx).reshape(-1)],
                    input_unchanged=bool(before == digest_arrays([s])))
    except BaseException as ex:  # noqa
        return dict(ev='raise', exc=f'{type(ex).__name__}: {str(ex)[:60]}', ws=list(ws), tn=tn, td=td)


def record_split(ptn, rng, d0, d1, D0, D2, qd0, qd1, qD0, qD2, distr, tol, cplx, mono):
    """split_mps_tensor on a sparse two-site tensor; flags (mode N)"""
    qd0a, qd1a, qD0a, qD2a = map(np.array, (qd0, qd1, qD0, qD2))
    m = np.add.outer(np.add.outer(np.add.outer(qd0a, qd1a), qD0a), -qD2a) == 0       # d0 d1 D0 D2
    if mono:
        A = np.zeros(m.shape)
        pos = np.argwhere(m)
        for p in pos[rng.permutation(len(pos))[:max(1, len(pos) // 3)]]:
            A[tuple(p)] = int(rng.integers(1, 4)) * (1 if rng.random() < 0.5 else -1)
    else:
        A = rng.normal(size=m.shape) + (1j * rng.normal(size=m.shape) if cplx else 0)
    A = np.where(m, A, 0).reshape((d0 * d1, len(qD0), len(qD2)))
    before = digest_arrays([A])
    rec = dict(ev='split', distr=distr, tol=float(tol), shape=[d0, d1, len(qD0), len(qD2)], exact=False)
    try:
        A0, A1, qb = ptn.split_mps_tensor(A, qd0a, qd1a, [qD0a, qD2a], distr, tol)
        qb = np.asarray(qb)
        Am = ptn.merge_mps_tensor_pair(A0, A1)
        nrm = max(1.0, float(np.linalg.norm(A)))
        full = bondgen.dense_spectrum(A.reshape((d0, d1, len(qD0), len(qD2))).transpose((0, 2, 1, 3)).reshape((d0 * len(qD0), -1)))
        W = float(np.sum(full**2))
        Dn = len(qb)
        disc = float(np.sum(full[Dn:]**2))
        err = float(np.linalg.norm(Am - A))
        rec['merge_ok'] = bool(abs(err - np.sqrt(disc)) <= 1e-9 * nrm and (W == 0 or disc / W <= tol + 1e-12)
                               and (tol > 0 or err <= 1e-10 * nrm))
        rec['sparse0'] = bool(not np.any(np.where(np.add.outer(np.add.outer(qd0a, qD0a), -qb) == 0, 0, A0)))
        rec['sparse1'] = bool(not np.any(np.where(np.add.outer(np.add.outer(qd1a, qb), -qD2a) == 0, 0, A1)))
        rec['qlen_ok'] = bool(A0.shape == (d0, len(qD0), Dn) and A1.shape == (d1, Dn, len(qD2)))
        rec['input_unchanged'] = bool(before == digest_arrays([A]))
        iso = 0.0
        if W > 0 and Dn > 0:
            if distr == 'right':
                M0 = A0.reshape((-1, Dn))
                iso = float(np.linalg.norm(M0.conj().T @ M0 - np.eye(Dn)))
            elif distr == 'left':
                M1 = A1.transpose((1, 0, 2)).reshape((Dn, -1))
                iso = float(np.linalg.norm(M1 @ M1.conj().T - np.eye(Dn)))
            else:
                M0 = A0.reshape((-1, Dn))
                M1 = A1.transpose((1, 0, 2)).reshape((Dn, -1))
                g0 = np.diag(M0.conj().T @ M0).real
                g1 = np.diag(M1 @ M1.conj().T).real
                iso = float(np.linalg.norm(g0 - g1)) / max(1.0, float(np.max(g0)))     # sqrt: singular values shared evenly
        rec['iso_ok'] = bool(iso <= 1e-9)
        if mono:
            rec['exact'] = True
            rec['exact_merge_equal'] = bool(tol > 0 or np.array_equal(np.rint(Am.real), A) and np.max(np.abs(Am - np.rint(Am.real))) < 1e-9)
    except BaseException as ex:  # noqa
        return dict(ev='raise', exc=f'{type(ex).__name__}: {str(ex)[:60]}')
    return rec


def run(ctx):
    ptn = common.import_repo()
    rng = np.random.default_rng(ctx.seed * 13 + 12)
    ctx.rule = ('model: all charge layouts of the listed shapes x all non-increasing block spectra over WTS x the listed '
                'tolerances; traces: one per call of retained_bond_indices / split_matrix_svd / split_mps_tensor; non-trivial = '
                'call in which at least one value is discarded or a tie sits at the threshold; distinct = distinct input')
    ctx.assumptions += ['kernel contract: numpy.linalg.svd of a dense block returns isometries and descending singular values',
                        'tolerances equal to a cumulative weight are only used when the float computation is exact '
                        '(total weight a power of 4, weights perfect squares)',
                        'mode-N bounds 1e-9 / 1e-10 relative as stated in bondgen.record_svd']
    D = '{-1,0,2}'
    tols = [(0, 1), (1, 4), (1, 3), (5, 12), (3, 4)] if ctx.quick else [(0, 1), (1, 12), (1, 4), (1, 3), (5, 12), (1, 2), (2, 3), (3, 4), (11, 12)]
    shapes = [(2, 2), (2, 3)] if ctx.quick else [(2, 2), (2, 3), (3, 2), (3, 3), (1, 3)]
    for (M, N) in shapes:
        for tn, td in tols:
            ctx.model('BondOps', f'm_svd_{M}x{N}_{tn}_{td}', constants=consts(M, N, 'svd', tn=tn, td=td),
                      defs=dict(QALPH=D, WTS='{0,1,2,4}'), invariants=INV, timeout=1800, coverage=((M, N) == (2, 3) and (tn, td) == (1, 4)))

    recs, cases = [], []

    def add(rec, case, nontrivial=True):
        recs.append([rec])
        cases.append(case)
        ctx.count(case, nontrivial)

    if ctx.replay is not None:
        c = ctx.replay['replay']['case']
        if c['kind'] == 'rbi':
            add(record_rbi(ptn, c['ws'], c['tn'], c['td']), c)
        elif c['kind'] == 'svd':
            A = np.array(c['A_re']) + 1j * np.array(c['A_im'])
            add(bondgen.record_svd(ptn, A if np.any(A.imag) else A.real, c['q0'], c['q1'], c['tn'], c['td'], c.get('slots')), c)
    else:
        # ---- retained_bond_indices: exhaustive weight vectors
        wuni = [0, 1, 4, 9]
        for n in range(1, ctx.pick(4, 5) + 1):
            for ws in itertools.product(wuni, repeat=n):
                W = sum(ws)
                tl = [(p, 12) for p in (range(0, 12, 3) if ctx.quick and n >= 4 else range(12))]
                if W > 0 and is_pow4(W):
                    c = 0
                    for w in sorted(ws):
                        c += w
                        if 0 < c < W:
                            tl.append((c, W))
                for tn, td in tl:
                    if W > 0 and boundary(ws, tn, td) and not is_pow4(W):
                        continue
                    add(record_rbi(ptn, ws, tn, td), dict(kind='rbi', ws=list(ws), tn=tn, td=td),
                        nontrivial=W > 0 and tn > 0)
        # ---- split_matrix_svd, exact instances
        lay = list(bondgen.layouts(ctx.pick(3, 4)))
        sel = rng.choice(len(lay), size=min(len(lay), ctx.pick(350, 6000)), replace=False)
        pow4_sets = [[4, 4, 4, 4], [9, 4, 1, 1, 1], [4, 4, 4, 1, 1, 1, 1], [1, 1, 1, 1], [16], [9, 1, 1, 1, 1, 1, 1, 1], [4, 1, 1, 1, 1, 4, 4]]
        for i in sorted(sel):
            m, n, q0, q1 = lay[i]
            cplx = bool(rng.integers(2))
            wts = None
            if rng.random() < 0.4:
                wts = list(rng.permutation(pow4_sets[int(rng.integers(len(pow4_sets)))]))
            A, slots = bondgen.gen_perm_matrix(rng, q0, q1, cplx, weights=wts)
            ws = [w for _, w in slots]
            W = sum(ws)
            cand = [(0, 1), (int(rng.integers(1, 12)), 12), (int(rng.integers(1, 12)), 12)]
            if W > 0 and is_pow4(W):
                c = 0
                for w in sorted(ws):
                    c += w
                    if 0 < c < W:
                        cand.append((c, W))
            if rng.random() < 0.3:
                A = np.asfortranarray(A)
            for tn, td in cand:
                if W > 0 and boundary(ws, tn, td) and not is_pow4(W):
                    continue
                add(bondgen.record_svd(ptn, A, q0, q1, tn, td, slots),
                    dict(kind='svd', q0=q0, q1=q1, tn=tn, td=td, A_re=np.real(A).tolist(), A_im=np.imag(A).tolist(),
                         slots=[list(map(int, s)) for s in slots]), nontrivial=W > 0)
        # ---- generic spectra (decaying, degenerate, rank deficient), incl. the zero matrix and integer dtype
        for _ in range(ctx.pick(500, 12000)):
            m, n, q0, q1 = bondgen.random_layout(rng, 9, 9) if rng.random() < 0.7 else bondgen.random_layout(rng, 17, 26)
            k = int(rng.integers(0, 6))
            cplx = bool(rng.integers(2))
            if k == 0:
                A = bondgen.generic_matrix(rng, q0, q1, cplx, deficient=True)
            elif k == 1:
                A = np.zeros((m, n))
            elif k == 2:
                A = np.where(bondgen.mask(q0, q1), rng.integers(-3, 4, size=(m, n)), 0).astype(np.int64)
            else:
                A = bondgen.generic_matrix(rng, q0, q1, cplx)
                if k == 3:   # decaying spectrum
                    A = A * (0.3 ** np.arange(n))[None, :]
            tn, td = (0, 1) if rng.random() < 0.25 else (int(rng.integers(1, 1000)), 1009)
            if rng.random() < 0.3:
                A = np.asfortranarray(A)
            add(bondgen.record_svd(ptn, A, q0, q1, tn, td, None),
                dict(kind='svd', q0=q0, q1=q1, tn=tn, td=td, A_re=np.real(A).tolist(), A_im=np.imag(A).tolist()),
                nontrivial=bool(np.any(A)))
        # ---- split_mps_tensor, all three distributions
        for _ in range(ctx.pick(300, 6000)):
            d0, d1 = int(rng.integers(1, 4)), int(rng.integers(1, 4))
            D0, D2 = int(rng.integers(1, 5)), int(rng.integers(1, 5))
            zero = rng.random() < 0.2
            qd0 = [0] * d0 if zero else [int(x) for x in rng.integers(-1, 2, size=d0)]
            qd1 = [0] * d1 if zero else [int(x) for x in rng.integers(-1, 2, size=d1)]
            qD0 = [0] * D0 if zero else [int(x) for x in rng.integers(-1, 2, size=D0)]
            qD2 = [0] * D2 if zero else [int(x) for x in rng.integers(-2, 3, size=D2)]
            distr = ['left', 'right', 'sqrt'][int(rng.integers(3))]
            tol = 0.0 if rng.random() < 0.5 else float(rng.integers(1, 500)) / 1009
            mono = rng.random() < 0.3
            add(record_split(ptn, rng, d0, d1, D0, D2, qd0, qd1, qD0, qD2, distr, tol, bool(rng.integers(2)), mono),
                dict(kind='split', args=[d0, d1, qd0, qd1, qD0, qD2, distr, tol, mono]))
    ctx.notes['exact_svd_instances'] = sum(1 for r in recs if r[0].get('ev') == 'svd' and r[0].get('exact'))
    ctx.notes['calls'] = len(recs)
    for r in recs[5:len(recs):max(1, len(recs) // 6)]:
        ctx.sample({k: v for k, v in r[0].items() if k not in ('A', 'F', 'S', 'sf', 'ss')})
    bad = validate_chunks(ctx, 'TraceBondOps', 'ts', recs, chunk=ctx.pick(500, 3000))
    for idx, why in sorted(bad.items())[:40]:
        c = cases[idx]
        clause = why[0][2] if why and len(why[0]) > 2 else 'rejected'
        short = {k: v for k, v in c.items() if k not in ('A_re', 'A_im')}
        ctx.violation(f'{c["kind"]}:{clause[:70]}', f'{short}: {clause}', dict(case=c, record=recs[idx][0]))
