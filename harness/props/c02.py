"""C02 - quantum-number block sparsity is an invariant of every operation sequence.

M: Sector.tla: histories (depth <= 5) over a pool of objects; LenOK / KindOK / NeverRaised; negative control
   LegacyFromVector (finding F3: from_vector ; any in-place operation raises).  The charge algebra of every
   factorization is model checked in BondOps.tla / Canon.tla.
S: random histories of 7-15 public operations on the same objects (construction, orthonormalize, compress, +, -, @, apply,
   from_vector, Hamiltonian constructors incl. the encoded Fermi-Hubbard charges, graph-to-MPO conversion, split / merge,
   TDVP and DMRG with quantum numbers ON, truncating two-site variants); after EVERY call the projection of every live
   object is recorded (list lengths, container types, sparsity by the harness's own mask code, boundary charges) and
   TraceSector.tla evaluates the invariants in every state and checks that consecutive projections are related by the
   Sector.tla action of the logged call.
S (spec -> code): behaviours produced by `tlc -simulate` on Sector.tla (create / from_vector / in-place / add / apply in
   every order over three objects) are stepped through real objects; after every action the projection of every live
   object is compared with the model state.
"""
import numpy as np

from .. import common, histgen, canon, simtrace, tlc, apalache
from ..parallel import validate_chunks, pmap


def _hist(arg):
    seed, quick = arg
    return histgen.run_history(common.import_repo(), seed, quick)[0]


# ----------------------------------------------------------------------------- spec -> code: behaviours of Sector.tla
def _reach(steps, L, q0):
    R = {q0}
    for _ in range(L):
        R = {q + s for q in R for s in steps}
    return R


def replay_behaviour(arg):
    """Step one TLC-generated behaviour of Sector.tla through real objects; compare the projection of every live object with the
    model state after every action.  Returns (verdict, detail, number of actions replayed)."""
    b, seed = arg
    ptn = common.import_repo()
    rng = np.random.default_rng(seed)
    L = int(rng.integers(1, 4))
    has_fv = any(st['last']['op'] == 'from_vector' for _, st in b)
    qd = [0, 0] if has_fv else [-1, 0, 1]
    objs = {}
    done = 0
    prev_model = None
    for action, st in b:
        last = st['last']
        op, o = last['op'], last['o']
        if op == 'init':
            continue
        model = st['st']
        zero_before = bool(op == 'inplace' and prev_model is not None and prev_model[o - 1]['zero'])
        prev_model = model
        try:
            if op == 'create':
                m = model[o - 1]
                steps = qd if m['cls'] == 'mps' else sorted({x - y for x in qd for y in qd})
                if m['qL'] not in _reach(steps, L, m['q0']):
                    return 'skipped', 'boundary charges not reachable with the all-zero physical basis of from_vector', done
                _, qD = canon.gen_charges(rng, L, len(qd), m['cls'], 'u1', qd=qd, q_start=m['q0'], qtot=m['qL'], maxD=3, dead=False)
                ctor = ptn.MPS if m['cls'] == 'mps' else ptn.MPO
                objs[o] = (m['cls'], ctor(qd, qD, fill=0.0 if m['zero'] else 'random', rng=rng))
            elif op == 'from_vector':
                v = rng.normal(size=len(qd)**L)
                objs[o] = ('mps', ptn.MPS.from_vector(len(qd), L, v, tol=float(rng.choice([0.0, 1e-3]))))
            elif op == 'inplace':
                cls, x = objs[o]
                mode = str(rng.choice(['left', 'right']))
                if cls == 'mps' and rng.random() < 0.5:
                    x.compress(float(rng.choice([0.0, 1e-2])), mode=mode)
                else:
                    x.orthonormalize(mode=mode)
            elif op == 'add':
                (ca, xa), (cb, xb) = objs[last['a']], objs[last['b']]
                objs[o] = (ca, (xa - xb) if last['sub'] else (xa + xb))
            elif op == 'apply':
                (ca, xa), (cb, xb) = objs[last['a']], objs[last['b']]
                objs[o] = (cb, ptn.apply_operator(xa, xb) if cb == 'mps' else (xa @ xb))
            else:
                return 'machinery', f'unknown action {op}', done
        except BaseException as ex:  # noqa
            return 'violation', f'{op}: the model allows the call, the code raised {type(ex).__name__}: {str(ex)[:80]}', done
        done += 1
        live = simtrace.as_set(st['live'])
        if sorted(live) != sorted(objs):
            return 'machinery', f'live sets differ: model {sorted(live)} code {sorted(objs)}', done
        for i in sorted(objs):
            cls, x = objs[i]
            m = model[i - 1]
            p = histgen.project(i, cls, x)
            arrays = all(isinstance(q, np.ndarray) for q in x.qD)
            if zero_before and i == o and (m['zero'] != p['zero'] or p['qL'] != [m['qL']] or p['q0'] != [m['q0']]):
                # InPlace on the zero state: the model chooses the outcome nondeterministically, the code took another branch
                return 'diverged', 'inplace on the zero state: the code chose another of the outcomes the model allows', done
            if m['zero'] != p['zero']:
                # the model is deterministic here only up to accidental zeros (an operator annihilating a state, ...)
                return 'diverged', f'{op}: zero flag model {m["zero"]} / code {p["zero"]}', done
            what = None
            if p['cls'] != m['cls']:
                what = 'class of the result'
            elif (m['kind'] == 'ndarray') != arrays:
                what = 'container kind of the bond quantum numbers'
            elif m['lenok'] != (p['qlens'] == p['dims'] and p['shapes_ok']):
                what = 'length of a quantum-number list differs from the dimension it labels'
            elif not p['sparse_ok']:
                what = 'a non-zero tensor entry violates the additive quantum-number rule'
            elif p['q0'] != [m['q0']] or p['qL'] != [m['qL']]:
                what = f'boundary charges: model ({m["q0"]},{m["qL"]}) code ({p["q0"]},{p["qL"]})'
            if what and what.startswith('boundary charges') and op in ('add', 'apply', 'create', 'from_vector'):
                # the charges a fresh result starts with are what the code does (Sector.tla), not part of C02
                return 'deviation', f'spec: after {op} (object {i}): {what}', done
            if what:
                return 'violation', f'after {op} (object {i}): {what}', done
    return 'ok', '', done


def replay_sector(ctx):
    behaviours = []
    # most behaviours without zero states (an in-place call on the zero state is nondeterministic in the model and ends the lockstep)
    for tag, zc, num in (('secsim', '{FALSE}', ctx.pick(400, 12000)), ('secsim0', '{TRUE, FALSE}', ctx.pick(100, 1500))):
        prefix = ctx.work + '/' + tag
        r = tlc.run('Sector', ctx.work, tag, workers=1, constants=dict(NOBJ=3, MaxDepth=7, LegacyFromVector='FALSE'), defs=dict(ZeroCreate=zc),
                    invariants=['LenOK', 'KindOK', 'NeverRaised'], simulate=dict(num=num, file=prefix),
                    depth=9, seed=ctx.seed + 7, timeout=1500)
        ctx._account(tag, 'Sector', r, 'simulate')
        if not r.ok:
            raise common.SpecError(f'Sector simulation violated {r.violated}')
        behaviours += simtrace.load_all(prefix)
    res = pmap(replay_behaviour, [(b, ctx.seed * 7919 + k) for k, b in enumerate(behaviours)])
    tally = {}
    for k, (verdict, detail, done) in enumerate(res):
        tally[verdict] = tally.get(verdict, 0) + 1
        ctx.traces += 1 if verdict in ('ok', 'violation') else 0
        if verdict == 'machinery':
            raise RuntimeError(f'Sector replay: {detail}')
        if verdict == 'deviation':
            ctx.deviation(detail.split(' (object')[0])
        if verdict == 'violation':
            ops = [st['last']['op'] for _, st in behaviours[k]]
            ctx.violation('replay:' + detail.split(':')[0][:60] + ':' + detail.split(': ', 1)[-1][:60],
                          f'behaviour {k} of Sector.tla ({ops}): {detail}', dict(behaviour=k, seed=ctx.seed, ops=ops))
    ctx.notes['sector_behaviours_replayed'] = tally
    why = {}
    for verdict, detail, _ in res:
        if verdict in ('diverged', 'skipped'):
            why[detail[:90]] = why.get(detail[:90], 0) + 1
    ctx.notes['sector_replay_cut_short_because'] = why
    ctx.notes['sector_actions_replayed'] = sum(d for _, _, d in res)
    ctx.log(f'{len(behaviours)} TLC-simulated behaviours of Sector.tla replayed on real objects: {tally}')


def qnum_traces(ptn, rng, n):
    """calls of qnumber_flatten / qnumber_outer_sum / is_qsparse on random leg charges and random tensors"""
    out = []
    for _ in range(n):
        k = int(rng.integers(1, 5))
        qs = [[int(x) for x in rng.integers(-2, 3, size=int(rng.integers(1, 4)))] for _ in range(k)]
        tr = []
        try:
            qa = [np.array(q) for q in qs]
            tr.append(dict(ev='flatten', qs=qs, out=[int(x) for x in ptn.qnumber_flatten(qa)]))
            T = np.asarray(ptn.qnumber_outer_sum(qa))
            tr.append(dict(ev='outer', qs=qs, flat=[int(x) for x in T.reshape(-1)], shape=[int(x) for x in T.shape]))
            mask = np.zeros(T.shape, dtype=bool)
            mode = int(rng.integers(3))
            if mode == 0:        # sparse by construction
                mask = (T == 0) & (rng.random(T.shape) < 0.7)
            elif mode == 1:      # one entry possibly off the allowed positions
                mask = (T == 0) & (rng.random(T.shape) < 0.5)
                mask[tuple(int(rng.integers(d)) for d in T.shape)] = True
            else:
                mask = rng.random(T.shape) < 0.3
            A = np.where(mask, rng.normal(size=T.shape) + (1j * rng.normal(size=T.shape) if rng.random() < 0.5 else 0), 0)
            A = np.where(mask & (A == 0), 1.0, A)
            tr.append(dict(ev='sparse', qs=qs, support=[[int(i) + 1 for i in idx] for idx in np.argwhere(A != 0)],
                           res=bool(ptn.is_qsparse(A, qa))))
        except BaseException as ex:  # noqa
            tr.append(dict(ev='raise', exc=f'{type(ex).__name__}: {str(ex)[:60]}'))
        out.append(tr)
    return out


def run(ctx):
    ptn = common.import_repo()
    rng = np.random.default_rng(ctx.seed * 53 + 2)
    ctx.rule = ('model: all histories of depth <= 5 over 3 objects; traces: one per random history; non-trivial = history containing '
                'at least one in-place algorithm applied to the result of an earlier operation; distinct = distinct seed')
    ctx.assumptions += ['sparsity is evaluated by the harness with its own mask code (not pytenet.qnumber) and enters as a flag; '
                        'list lengths, container kinds, pool bookkeeping and boundary charges are compared by TLC']
    ctx.model('Sector', 'm_hist', constants=dict(NOBJ=3, MaxDepth=ctx.pick(5, 6), LegacyFromVector='FALSE'), defs=dict(ZeroCreate='{TRUE, FALSE}'),
              invariants=['LenOK', 'KindOK', 'NeverRaised'], properties=['BoundaryKept'], view='view', coverage=True)
    ctx.model('Sector', 'm_F3_legacy', constants=dict(NOBJ=2, MaxDepth=3, LegacyFromVector='TRUE'), defs=dict(ZeroCreate='{FALSE}'), invariants=['NeverRaised'],
              expect_violation='NeverRaised')
    if ctx.replay is None and not ctx.quick and apalache.available():
        # histories of ANY length: LenOK / KindOK / NeverRaised as an inductive invariant of Sector.tla (Apalache); the pinned
        # from_vector (finding F3) must break the inductive step
        res = []
        for mod, init, inv, length, want in (('MC_SectorInd', 'Init', 'IndInv', 0, 'NoError'), ('MC_SectorInd', 'IndInit', 'IndInv', 1, 'NoError'),
                                             ('MC_SectorIndLegacy', 'IndInit', 'IndInv', 1, 'Error')):
            got, wall = apalache.check(mod, init, inv, length, ctx.work)
            res.append(dict(module=mod, init=init, inv=inv, length=length, outcome=got, expected=want, wall_s=round(wall, 1)))
            ctx.log(f'apalache {mod} --init={init} --inv={inv} --length={length}: {got} (expected {want}), {wall:.1f}s')
            if got != want and not got.startswith('unknown'):
                raise common.SpecError(f'Apalache: {mod} {init}/{inv}: outcome {got}, expected {want}')
        ctx.notes['apalache_inductive'] = res
    if ctx.replay is None:
        replay_sector(ctx)
        # the charge algebra every block-sparse routine rests on (spec-level conformance: QNum.tla)
        ctx.model('QNum', 'm_qnum', constants=dict(MAXD=2, MAXLEGS=3), defs=dict(QALPH='{-1,0,1}'),
                  invariants=['FuseAssoc', 'FuseLen', 'FuseNeg', 'MatricizeOK'])
        qt = qnum_traces(ptn, rng, ctx.pick(300, 6000))
        validate_chunks(ctx, 'TraceQNum', 'tqn', qt, chunk=ctx.pick(300, 3000))
    seeds = [ctx.replay['replay']['seed']] if ctx.replay is not None else [int(x) for x in rng.integers(1 << 30, size=ctx.pick(700, 16000))]
    traces = pmap(_hist, [(s, ctx.quick) for s in seeds])
    for s, t02 in zip(seeds, traces):
        ctx.count(s, nontrivial=sum(1 for r in t02 if r.get('kind') == 'inplace') >= 1 and len(t02) >= 6)
    ctx.notes['operations'] = sum(len(t) for t in traces)
    names = {}
    for t in traces:
        for r in t:
            if r.get('ev') == 'op':
                names[r['name'].split('(')[0]] = names.get(r['name'].split('(')[0], 0) + 1
    ctx.notes['operation_histogram'] = names
    for t in traces[::max(1, len(traces) // 4)]:
        ctx.sample([dict(name=r.get('name'), kind=r.get('kind'), target=r.get('target'), nobjs=len(r.get('objs', []))) for r in t])
    bad = validate_chunks(ctx, 'TraceSector', 'tse', traces, chunk=ctx.pick(40, 400))
    for idx, why in sorted(bad.items())[:40]:
        clause = why[0][2] if why and len(why[0]) > 2 else 'rejected'
        key = 'history:' + (clause.split(': ', 1)[-1][:80] if 'after ' in clause else clause[:80])
        ctx.violation(key, f'history seed {seeds[idx]}: record {why[0][0] if why else "?"}: {clause}', dict(seed=seeds[idx],
                      ops=[r.get('name', r.get('op')) for r in traces[idx]]))
