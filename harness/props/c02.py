"""C02 - quantum-number block sparsity is an invariant of every operation sequence.

M: Sector.tla: histories (depth <= 5) over a pool of objects; LenOK / KindOK / NeverRaised; negative control
   LegacyFromVector (finding F3: from_vector ; any in-place operation raises).  The charge algebra of every
   factorization is model checked in BondOps.tla / Canon.tla.
S: random histories of 7-15 public operations on the same objects (construction, orthonormalize, compress, +, -, @, apply,
   from_vector, Hamiltonian constructors incl. the encoded Fermi-Hubbard charges, graph-to-MPO conversion, split / merge,
   TDVP and DMRG with quantum numbers ON, truncating two-site variants); after EVERY call the projection of every live
   object is recorded (list lengths, container types, sparsity by the harness's own mask code, boundary charges) and
   TraceSector.tla evaluates the invariants in every state.
"""
import numpy as np

from .. import common, histgen
from ..parallel import validate_chunks, pmap


def _hist(arg):
    seed, quick = arg
    return histgen.run_history(common.import_repo(), seed, quick)[0]


def run(ctx):
    ptn = common.import_repo()
    rng = np.random.default_rng(ctx.seed * 53 + 2)
    ctx.rule = ('model: all histories of depth <= 5 over 3 objects; traces: one per random history; non-trivial = history containing '
                'at least one in-place algorithm applied to the result of an earlier operation; distinct = distinct seed')
    ctx.assumptions += ['sparsity is evaluated by the harness with its own mask code (not pytenet.qnumber) and enters as a flag; '
                        'list lengths, container kinds, pool bookkeeping and boundary charges are compared by TLC']
    ctx.model('Sector', 'm_hist', constants=dict(NOBJ=3, MaxDepth=ctx.pick(5, 6), LegacyFromVector='FALSE'),
              invariants=['LenOK', 'KindOK', 'NeverRaised'], coverage=True)
    ctx.model('Sector', 'm_F3_legacy', constants=dict(NOBJ=2, MaxDepth=3, LegacyFromVector='TRUE'), invariants=['NeverRaised'],
              expect_violation='NeverRaised')
    seeds = [ctx.replay['replay']['seed']] if ctx.replay is not None else [int(x) for x in rng.integers(1 << 30, size=ctx.pick(700, 6000))]
    traces = pmap(_hist, [(s, ctx.quick) for s in seeds])
    for s, t02 in zip(seeds, traces):
        ctx.count(s, nontrivial=sum(1 for r in t02 if r.get('kind') == 'inplace') >= 1 and len(t02) >= 6)
    ctx.notes['operations'] = sum(len(t) for t in traces)
    names = {}
    for t in traces:
        for r in t:
            if r.get('ev') == 'op':
                names[r['name'].split('(')[0]] = names.get(r['name'].split('(')[0], 0) + 1
    ctx.notes['operation_histogram'] = names
    for t in traces[::max(1, len(traces) // 4)]:
        ctx.sample([dict(name=r.get('name'), kind=r.get('kind'), target=r.get('target'), nobjs=len(r.get('objs', []))) for r in t])
    bad = validate_chunks(ctx, 'TraceSector', 'tse', traces, chunk=ctx.pick(40, 400))
    for idx, why in sorted(bad.items())[:40]:
        clause = why[0][2] if why and len(why[0]) > 2 else 'rejected'
        key = 'history:' + (clause.split(': ', 1)[-1][:80] if 'after ' in clause else clause[:80])
        ctx.violation(key, f'history seed {seeds[idx]}: record {why[0][0] if why else "?"}: {clause}', dict(seed=seeds[idx],
                      ops=[r.get('name', r.get('op')) for r in traces[idx]]))
