"""C15 - Krylov approximations are bounded, and exact once the Krylov space is exhausted.

M: Krylov.tla: routing (hermitian -> Lanczos / eigh_tridiagonal, general -> Arnoldi / expm) and the regime table
   Required(clause) as a state predicate over exact integers (exhausted == m >= kdim); ExhaustedSpans.
S: which iteration routine was entered (wrappers), shapes, regime from the exactly computed kdim.
N: lambda_min <= theta_0 <= Rayleigh quotient; norm preservation for imaginary time; in the exhausted regime
   expm_krylov = expm(dt A) v for both branches and complex dt, theta_0 = smallest reachable eigenvalue; below it Ritz
   vectors orthonormal with Ritz values as Rayleigh quotients.
"""
import numpy as np

from .. import common, krylovgen
from ..parallel import validate_chunks

LEVEL = 'other'


def run(ctx):
    ptn = common.import_repo()
    target = None
    if ctx.replay is not None:
        # cases are regenerated deterministically from (seed, tier); only the recorded one is validated again
        rp = ctx.replay['replay']
        ctx.seed, ctx.tier, target = int(rp.get('seed', ctx.seed)), str(rp.get('tier', ctx.tier)), rp.get('index')
    rng = np.random.default_rng(ctx.seed * 37 + 15)
    ctx.explanation = ('Apart from routing and the regime predicate everything here is numerical. TLC model checks the regime table '
                       'of Krylov.tla and validates for every recorded call, with the exact Krylov dimension, that the clauses required '
                       'in its regime were observed to hold (oracles numpy eigvalsh / scipy expm as named by the property, bounds 1e-10 '
                       'resp. 1e-9 (1 + |dt| ||A||)).')
    ctx.rule = ('one trace per call of eigh_krylov / expm_krylov; integer matrices n <= 8, m in 1..n+3 (incl. m > n), complex dt, both '
                'values of the hermitian flag; non-trivial = kdim >= 2; distinct = distinct (A, v, m, dt, flag)')
    ctx.model('Krylov', 'm_regimes', constants=dict(NMAX=ctx.pick(5, 7), MMAX=ctx.pick(8, 10)),
              invariants=['SizesOK', 'WarnOK', 'RoutingOK', 'ExhaustedSpans'], properties=['Terminates'], coverage=True)
    traces, cases = [], []
    for _ in range(ctx.pick(700, 120000)):
        kind = str(rng.choice(['eigh', 'expm_h', 'expm_g']))
        herm = kind != 'expm_g' or bool(rng.integers(2))
        A, v, fam, vk = krylovgen.gen_problem(rng, herm)
        if kind == 'expm_g' and rng.random() < 0.5 and len(v) >= 2:
            A = A + np.diag(np.ones(len(v) - 1), 1)          # make it non-normal / possibly defective
        n = len(v)
        m = int(rng.integers(1, n + 4))
        if fam == 'near_eig' and rng.random() < 0.7:
            m = int(rng.choice([12, 25, 60]))          # the DMRG / TDVP regime: iteration count far above the Krylov dimension
        if kind == 'eigh':
            rec = krylovgen.record_eigh(ptn, A, v, m)
            if rng.random() < 0.3:
                A = A + (int(np.ceil(np.max(np.abs(np.linalg.eigvalsh(A))))) + 1) * np.eye(n)      # positive definite: lowest reachable > 0
                rec = krylovgen.record_eigh(ptn, A, v, m)
        else:
            nA = max(1.0, float(np.linalg.norm(A, 2)))
            dt = [1j, -1j, 1.0, -0.5, 0.3 + 0.4j, 0.7j][int(rng.integers(6))] * float(rng.uniform(0.2, 2.0)) / nA
            rec = krylovgen.record_expm(ptn, A, v, m, dt, hermitian=(kind == 'expm_h'))
        traces.append([rec])
        cases.append(dict(kind=kind, fam=fam, vk=vk, n=n, m=m))
        ctx.count([kind, repr(np.asarray(A).tolist()), repr(np.asarray(v).tolist()), m], nontrivial=rec.get('kdim', 0) >= 2)
    ctx.notes['exhausted_regime_calls'] = sum(1 for t in traces if t[0].get('m', 0) >= t[0].get('kdim', 99))
    for t in traces[::max(1, len(traces) // 6)]:
        ctx.sample(t[0])
    offset = 0
    if target is not None and 0 <= int(target) < len(traces):
        offset = int(target)
        cases, traces = [cases[offset]], [traces[offset]]
    bad = validate_chunks(ctx, 'TraceKrylov', 'tk5', traces, chunk=ctx.pick(400, 8000))
    for idx, why in sorted(bad.items())[:40]:
        clause = why[0][2] if why and len(why[0]) > 2 else 'rejected'
        ctx.violation(f'krylov:{traces[idx][0].get("ev")}:{clause[:70]}', f'{cases[idx]}: {clause}', dict(case=cases[idx], seed=ctx.seed, tier=ctx.tier, index=idx + offset, record=traces[idx][0]))
