"""C11 - block-sparse QR is an exact, isometric, charge-respecting factorization.

M: BondOps.tla (Kind = "qr"): the staged machine explored for ALL shapes m, n <= 3 (quick) / 4 (thorough) and ALL charge
   vectors over a 3-letter alphabet; ProductOK / IsometryOK / SparseOK / DimOK / DummyOK / ClosedFormOK in terms of the
   original index order; negative controls (un-sort without argsort, un-sort only when both sides were sorted, dummy
   charge from the wrong side) must violate.
S/E/N: every layout of that universe (plus large-encoded charges and random larger shapes) is replayed through the real
   qr with monomial entries (exact product / isometry evaluated by TLC on Gaussian integers) and with generic real and
   complex entries incl. rank-deficient and empty blocks (supports, charges, dimension bound exact; residuals mode N).
"""
import numpy as np

from .. import common, bondgen
from ..parallel import validate_chunks

INV = ['ProductOK', 'IsometryOK', 'SparseOK', 'DimOK', 'DummyOK', 'ClosedFormOK']


def consts(M, N, kind='qr', bug='none', tn=0, td=1):
    return dict(M=M, N=N, Kind=f'"{kind}"', Bug=f'"{bug}"', TolNum=tn, TolDen=td)


def run(ctx):
    ptn = common.import_repo()
    rng = np.random.default_rng(ctx.seed * 7 + 11)
    ctx.rule = ('model: every pair of charge vectors over {-1,0,2} for every shape up to the bound; traces: one per call of qr; '
                'layouts enumerated exhaustively up to 3x3 (quick) / 4x4 (thorough) x {monomial real, monomial complex, generic '
                'real, generic complex, rank-deficient}; non-trivial = layout with a shared charge; distinct = distinct '
                '(layout, entry kind)')
    ctx.assumptions += ['kernel contract: numpy.linalg.qr of a dense block returns Q with orthonormal columns and Q R = block',
                        'mode-N bounds: ||QR-A|| <= 1e-10 max(1,||A||), ||Q^H Q - 1|| <= 1e-10']
    D = '{-1,0,2}'
    maxd = ctx.pick(3, 4)
    for M in range(1, maxd + 1):
        for N in range(1, maxd + 1):
            if ctx.quick and (M, N) not in ((3, 3), (2, 3), (3, 1), (1, 2), (1, 1), (3, 2)):
                continue
            ctx.model('BondOps', f'm_qr_{M}x{N}', constants=consts(M, N), defs=dict(QALPH=D, WTS='{0}'), invariants=INV,
                      coverage=(M == 3 and N == 3), timeout=1800)
    ctx.model('BondOps', 'm_qr_bug_noargsort', constants=consts(3, 3, bug='noargsort'), defs=dict(QALPH=D, WTS='{0}'),
              invariants=['ProductOK'], expect_violation='ProductOK')
    ctx.model('BondOps', 'm_qr_bug_bothonly', constants=consts(2, 2, bug='bothonly'), defs=dict(QALPH=D, WTS='{0}'),
              invariants=['ProductOK'], expect_violation='ProductOK')
    ctx.model('BondOps', 'm_qr_bug_dummycharge', constants=consts(2, 2, bug='dummycharge'), defs=dict(QALPH=D, WTS='{0}'),
              invariants=['SparseOK'], expect_violation='SparseOK')

    recs, cases = [], []

    def add(A, q0, q1, exact, fullrank, kind):
        if rng.random() < 0.25:
            A = np.asfortranarray(A)          # memory layout is part of the input space (views, column-major arrays)
        recs.append([bondgen.record_qr(ptn, A, q0, q1, exact, fullrank)])
        cases.append(dict(q0=q0, q1=q1, kind=kind, A_re=np.real(A).tolist(), A_im=np.imag(A).tolist()))
        ctx.count([q0, q1, kind], nontrivial=bool(set(q0) & set(q1)))

    if ctx.replay is not None:
        c = ctx.replay['replay']['case']
        A = np.array(c['A_re']) + 1j * np.array(c['A_im'])
        if not np.any(np.array(c['A_im'])):
            A = A.real
        add(A, c['q0'], c['q1'], True, False, c['kind'])
    else:
        lay = list(bondgen.layouts(maxd))
        if ctx.quick:
            idx = rng.choice(len(lay), size=900, replace=False)
            lay = [lay[i] for i in sorted(idx)] + [l for l in bondgen.layouts(2)]
        big = [(m, n, [bondgen.ALPH_BIG[bondgen.ALPH.index(x)] for x in q0], [bondgen.ALPH_BIG[bondgen.ALPH.index(x)] for x in q1])
               for m, n, q0, q1 in lay[::7]]
        for m, n, q0, q1 in lay + big:
            add(bondgen.monomial_matrix(rng, q0, q1, False), q0, q1, True, False, 'mono_real')
            add(bondgen.monomial_matrix(rng, q0, q1, True), q0, q1, True, False, 'mono_cplx')
            add(bondgen.generic_matrix(rng, q0, q1, False), q0, q1, False, True, 'gen_real')
            add(bondgen.generic_matrix(rng, q0, q1, True), q0, q1, False, True, 'gen_cplx')
            add(bondgen.generic_matrix(rng, q0, q1, bool(rng.integers(2)), deficient=True), q0, q1, False, False, 'deficient')
        for _ in range(ctx.pick(300, 10000)):
            m, n, q0, q1 = bondgen.random_layout(rng, 23, 15)
            k = rng.integers(0, 4)
            if k == 0:
                add(bondgen.monomial_matrix(rng, q0, q1, bool(rng.integers(2))), q0, q1, True, False, 'mono_large')
            elif k == 1:
                add(bondgen.generic_matrix(rng, q0, q1, bool(rng.integers(2)), deficient=True), q0, q1, False, False, 'deficient_large')
            else:
                add(bondgen.generic_matrix(rng, q0, q1, bool(rng.integers(2))), q0, q1, False, True, 'gen_large')
        # entries of very small / very large magnitude (norms that under- or overflow when squared)
        for _ in range(ctx.pick(120, 2000)):
            m, n, q0, q1 = bondgen.random_layout(rng, 6, 6)
            e = int(rng.choice([-300, -200, -165, -100, -30, 30, 100, 150]))
            A = bondgen.generic_matrix(rng, q0, q1, bool(rng.integers(2)), deficient=bool(rng.random() < 0.2)) * 10.0**e
            add(A, q0, q1, False, False, f'scaled_1e{e}')
        # integer dtype input (finding F4)
        for _ in range(ctx.pick(40, 400)):
            m, n, q0, q1 = bondgen.random_layout(rng, 5, 5)
            add(np.rint(bondgen.monomial_matrix(rng, q0, q1, False)).astype(np.int64), q0, q1, True, False, 'int_dtype')
            add(np.where(bondgen.mask(q0, q1), rng.integers(-3, 4, size=(m, n)), 0).astype(np.int64), q0, q1, False, False, 'int_generic')
    ctx.notes['exact_instances'] = sum(1 for r in recs if r[0].get('exact'))
    ctx.notes['calls'] = len(recs)
    for r in recs[3:3000:611]:
        ctx.sample({k: v for k, v in r[0].items() if k not in ('A', 'F', 'S', 'sf', 'ss')})
    bad = validate_chunks(ctx, 'TraceBondOps', 'tq', recs, chunk=ctx.pick(500, 3000))
    for idx, why in sorted(bad.items())[:40]:
        c = cases[idx]
        clause = why[0][2] if why and len(why[0]) > 2 else 'rejected'
        key = 'qr:' + ('integer-dtype' if c['kind'].startswith('int_') and 'mode N' in clause else clause[:70])
        ctx.violation(key, f'qr on layout q0={c["q0"]} q1={c["q1"]} ({c["kind"]}): {clause}', dict(case=c, record=recs[idx][0]))
