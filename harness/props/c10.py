"""C10 - DMRG energies are variational, consistent with the returned state and monotone.

M: Sweep.tla (dmrg1, dmrg2): WellPosed at every local minimisation, one recorded energy per sweep which is that of the last
   local problem, final normalisation, right-canonical result.
S: every local minimisation of real runs is observed (site / pair, fresh environment blocks, canonical forms, hex of the
   returned Ritz value, Ritz value <= Rayleigh quotient of the start tensor); the reported energies must be bit-identical to
   the last local value of their sweep; H digest.
N (oracles named by the property): dense <psi|H|psi> of the returned state = last reported energy, ||psi|| = 1, every reported
   energy >= eigvalsh of H restricted to the charge sector of psi, <= energy of the normalized start state, non-increasing
   (two-site: zero split tolerance); complete manifold + 25 Lanczos iterations + 3 sweeps => exact sector ground energy.
"""
import numpy as np

from .. import common, sweepgen
from ..parallel import validate_chunks, pmap
from .c08 import INV, sweep_models


def gen_case(rng):
    alg = 'dmrg1' if rng.random() < 0.5 else 'dmrg2'
    kind = str(rng.choice(['xxz', 'xxz', 'ising', 'bose', 'fermi_hubbard', 'complex']))
    Lmax = 3 if kind == 'fermi_hubbard' else 4 if kind == 'bose' else 6
    return dict(alg=alg, kind=kind, L=int(rng.integers(2, Lmax + 1)), nsweeps=int(rng.integers(1, 4)), numiter=int(rng.choice([2, 3, 5, 25])),
                maxD=int(rng.integers(1, 5)), qnums=bool(rng.random() < 0.7), complete=bool(rng.random() < 0.25), real=bool(rng.random() < 0.2),
                repeat=bool(rng.random() < 0.3), shift=bool(rng.random() < 0.3), basis=bool(rng.random() < 0.35), seed=int(rng.integers(1 << 30)),
                tol_split=float(rng.choice([0.0, 0.0, 0.0, 1e-3, 1e-2])), product=bool(rng.random() < 0.5))


def record(c):
    ptn = common.import_repo()
    rng = np.random.default_rng(c['seed'])
    try:
        H = sweepgen.make_hamiltonian(ptn, rng, c['L'], c['kind'])
        if c['shift']:
            # positive spectrum: H + s * identity (energies > 0 expose bookkeeping slips that negative energies hide)
            Hd = H.as_matrix()
            s = float(np.ceil(np.max(np.abs(np.linalg.eigvalsh(Hd)))) + 1.0)
            idm = ptn.MPO.identity(H.qd, H.nsites, scale=1.0)
            idm.A[0] = idm.A[0] * s
            for b in range(len(idm.qD)):
                idm.qD[b] = np.array([H.qD[0][0]]) if b in (0, len(idm.qD) - 1) else idm.qD[b]
            if np.array_equal(H.qD[0], [0]) and np.array_equal(H.qD[-1], [0]):
                H = H + idm
        if not c['qnums']:
            H.zero_qnumbers()
        psi = sweepgen.random_state(ptn, rng, H, maxD=c['maxD'], complete=c['complete'], real=c['real'])
        bs = False
        if c['complete'] and c.get('basis'):
            bs = sweepgen.basis_state_on(ptn, rng, psi)  # sparse start tensors: a computational basis state of the sector
        prod = False
        if c['complete'] and not bs and c.get('product') and not c['qnums']:
            prod = sweepgen.product_state_on(ptn, rng, psi)     # a generic product state zero-padded into the complete manifold
        nsw = (6 if prod else 3) if c['complete'] else c['nsweeps']
        nit = 25 if c['complete'] else c['numiter']
        ts = float(c.get('tol_split', 0.0)) if (c['alg'] == 'dmrg2' and not c['complete']) else 0.0
        tr = sweepgen.record_dmrg(ptn, H, psi, c['alg'], nsw, nit, tol_split=ts, complete=c['complete'], basis_start=bs)
        if c['repeat'] and tr[-1].get('ev') == 'end':
            # a history: the user changes the state or the Hamiltonian between two invocations on the same objects
            how = str(rng.choice(['none', 'scale_psi', 'quench_H', 'ortho_left']))
            if how == 'scale_psi':
                psi.A[int(rng.integers(c['L']))] *= 0.5
            elif how == 'ortho_left':
                psi.orthonormalize(mode='left')
            elif how == 'quench_H' and not c['shift']:
                H2 = sweepgen.make_hamiltonian(ptn, rng, c['L'], c['kind'])
                if not c['qnums']:
                    H2.zero_qnumbers()
                if all(a.shape == b.shape for a, b in zip(H.A, H2.A)) and all(np.array_equal(x, y) for x, y in zip(H.qD, H2.qD)):
                    for a, b in zip(H.A, H2.A):
                        a[...] = b
            alg2 = c['alg'] if rng.random() < 0.7 else ('dmrg2' if c['alg'] == 'dmrg1' else 'dmrg1')
            sweepgen.record_dmrg(ptn, H, psi, alg2, 1, nit, tr=tr)
        return tr
    except BaseException as ex:  # noqa
        return [dict(ev='raise', exc=f'generator: {type(ex).__name__}: {str(ex)[:80]}')]


# Inputs on which the pinned tree violated the property before the repair cec1d93 (finding F6: Lanczos continued past an exhausted
# Krylov space; about one in 10^3 runs of this regime): kept as fixed regression inputs, generated like every other case.
_F6 = dict(nsweeps=1, numiter=2, maxD=3, qnums=True, complete=True, repeat=False, shift=False, basis=True)
PINNED = [dict(_F6, alg='dmrg1', kind='xxz', L=6, real=True, seed=689189530),
          dict(_F6, alg='dmrg1', kind='bose', L=6, real=False, seed=845033753),
          dict(_F6, alg='dmrg1', kind='xxz', L=6, real=False, seed=1020005882),
          dict(_F6, alg='dmrg2', kind='bose', L=5, real=True, seed=947054777)]


def run(ctx):
    ptn = common.import_repo()
    rng = np.random.default_rng(ctx.seed * 47 + 10)
    ctx.rule = ('model: dmrg1 / dmrg2 programs for L = 2..6, 1..3 sweeps; traces: one per run (optionally a repeated invocation on the '
                'same state) on XXZ / Ising / Bose-Hubbard / Fermi-Hubbard / random complex Hermitian MPOs (optionally shifted to a '
                'positive spectrum), quantum numbers on in 70 % of the runs, bond dimensions 1..4 or complete manifolds, numiter in '
                '{2,3,5,25}; non-trivial = run whose energy decreases; distinct = distinct seed')
    ctx.assumptions += ['kernel contract: lowest Ritz value <= Rayleigh quotient of the start vector (observed per local problem)',
                        'mode-N bounds 1e-9 ||H|| (consistency 1e-8 ||H||, exact ground state 1e-7 ||H||)']
    sweep_models(ctx, ['dmrg1', 'dmrg2'])
    cases = [ctx.replay['replay']['case']] if ctx.replay is not None else [gen_case(rng) for _ in range(ctx.pick(300, 24000))] + \
        [dict(c) for c in PINNED]
    traces = pmap(record, cases)
    for c, tr in zip(cases, traces):
        ens = [float.fromhex(r['en']) for r in tr if r.get('ev') == 'local' and r.get('en')]
        ctx.count(c, nontrivial=bool(len(ens) >= 2 and ens[-1] < ens[0] - 1e-9))
    ctx.notes['local_problems_observed'] = sum(1 for tr in traces for r in tr if r['ev'] == 'local')
    for tr in traces[::max(1, len(traces) // 4)]:
        ctx.sample(tr[:4] + tr[-1:])
    bad = validate_chunks(ctx, 'TraceSweep', 'ts10', traces, chunk=ctx.pick(20, 800), relax=sweepgen.relax)
    for idx, why in sorted(bad.items())[:40]:
        clause = why[0][2] if why and len(why[0]) > 2 else 'rejected'
        ctx.violation(f'dmrg:{cases[idx]["alg"]}:{clause[:70]}', f'{cases[idx]}: record {why[0][0] if why else "?"}: {clause}', dict(case=cases[idx]))
