"""C06 - built-in lattice Hamiltonians equal their textbook definitions.

M: Hamiltonian.tla: the textbook operators (spin / boson term sums; fermionic operators on occupation configurations with
   explicit Jordan-Wigner signs) are Hermitian and charge conserving for every parameter tuple of a small range (a property
   of the specification's own formulas, checked before they are used as oracle).
E: for every L in 1..3 (thorough: up to 5 for d = 2) and parameter tuples in {-2..2}^3 (all single-parameter and vanishing
   coupling combinations, minus the identically-zero operator) the constructor is called, its tensors are scaled /
   similarity transformed to integers, and TLC contracts them and compares every entry with the textbook matrix it builds
   from the parameters; Hermiticity, block sparsity of every tensor, and charge conservation are checked on the same data.
"""
import itertools

import numpy as np

from .. import common, models
from ..observe import snap_array_gauss, OffLattice
from ..parallel import validate_chunks


def scaled_tensors(mpo, model, d):
    """per-tensor integer scaling after the similarity transformation; returns tensors (Gaussian) and the total scale"""
    Ts, S = [], 1
    for A in mpo.A:
        B = models.similarity_tensor(np.asarray(A, dtype=complex), model, d)
        for sc in (1, 2, 4, 8, 16):
            try:
                Ts.append(snap_array_gauss(B * sc, 'MPO tensor'))
                S *= sc
                break
            except OffLattice:
                continue
        else:
            raise OffLattice(f'{model}: tensor entries are not multiples of 1/16')
    return Ts, S


TS = dict(ising=1, xxz=4, xxz1=2, bose=2, fermi_hubbard=4, linferm_c=1, linferm_a=1)


def is_zero_operator(model, L, d, p):
    if model == 'ising':
        return (L == 1 or p[0] == 0) and p[1] == 0 and p[2] == 0
    if model in ('xxz', 'xxz1'):
        return (L == 1 or (p[0] == 0 and p[1] == 0)) and p[2] == 0
    if model == 'bose':
        return d == 1 or ((L == 1 or p[0] == 0) and p[2] == 0 and (p[1] == 0 or d <= 2))
    if model == 'fermi_hubbard':
        return (L == 1 or p[0] == 0) and p[1] == 0 and p[2] == 0
    return all(x == 0 for x in p)


def _mutate(mpo, how):
    """what a user may do to a returned MPO before asking for the same Hamiltonian again"""
    if how == 0:
        mpo.zero_qnumbers()
    elif how == 1:
        mpo.orthonormalize(mode='left')
    else:
        mpo.A[0] *= 3.0
        mpo.A[-1][...] = 0


def record_model(ptn, model, L, d, p, second=False):
    """second: the constructor is first called once with the same arguments and that result is modified in place (a history:
    constructors must not hand out shared state); the recorded MPO is the one returned by the second call"""
    try:
        if model.startswith('linferm'):
            f = [complex(a, b) for a, b in p]
            k = (sum(abs(a) + abs(b) for a, b in p) + L) % 3          # every documented spelling of the operator type
            ftype = (['c', 'create', 'creation'] if model.endswith('_c') else ['a', 'annihilate', 'annihilation'])[k]
            if second:
                first = ptn.linear_fermionic_mpo(list(f), ftype)
                _mutate(first, (L + k) % 3)
            mpo = ptn.linear_fermionic_mpo(f, ftype)
            dd = 2
            rec = dict(ev='model', model=model, L=L, d=2, params=[0, 0, 0], f=[[int(a), int(b)] for a, b in p], hermitian=False)
            Ts, S = scaled_tensors(mpo, 'none', 2)
        else:
            if second:
                first = models.build(ptn, model, L, p, d)
                _mutate(first, (L + int(sum(abs(x) for x in p))) % 3)
            mpo = models.build(ptn, model, L, p, d)
            dd = models.local_dim(model, d)
            rec = dict(ev='model', model=model, L=L, d=dd, params=[int(x) for x in p], f=[], hermitian=True)
            Ts, S = scaled_tensors(mpo, model, dd)
        if S >= 2**30:
            raise OffLattice('scale too large')
        w2 = [int(round(w * w)) for w in models._site_weights(model if not model.startswith('linferm') else 'none', dd)]
        rec.update(T=Ts, S=int(S), ts=TS[model], w2=w2, qd=[int(x) for x in mpo.qd], qD=[[int(x) for x in q] for q in mpo.qD])
        return [rec]
    except OffLattice as ex:
        # tensors not on the lattice: compare the dense matrix instead (the property is about the dense matrix)
        try:
            from .. import canon
            mname = model if not model.startswith('linferm') else 'none'
            H = models.similarity_dense(np.asarray(mpo.as_matrix(), dtype=complex), mname, dd, L) * TS[model]
            w2 = [int(round(w * w)) for w in models._site_weights(mname, dd)]
            rec.update(ev='model_dense', M=snap_array_gauss(H, 'dense matrix'), w2=w2, qd=[int(x) for x in mpo.qd],
                       qD=[[int(x) for x in q] for q in mpo.qD], sparse_ok=bool(canon.all_sparse(mpo, 'mpo')), T=[])
            return [rec]
        except BaseException as ex2:  # noqa
            return [dict(ev='raise', exc=f'OffLattice: {ex}; dense fallback: {type(ex2).__name__}: {str(ex2)[:60]}')]
    except BaseException as ex:  # noqa
        return [dict(ev='raise', exc=f'{type(ex).__name__}: {str(ex)[:80]}')]


def param_points(rng, quick, n):
    vals = [-2, -1, 0, 1, 2]
    allp = list(itertools.product(vals, repeat=3))
    special = [(1, 0, 0), (0, 1, 0), (0, 0, 1), (-1, 0, 0), (0, -2, 0), (0, 0, -1), (1, 1, 0), (1, 0, 1), (0, 1, 1), (2, -1, 1), (-1, 2, -2), (1, 1, 1)]
    if not quick:
        return allp
    idx = rng.choice(len(allp), size=n, replace=False)
    return special + [allp[i] for i in idx]


def run(ctx):
    ptn = common.import_repo()
    rng = np.random.default_rng(ctx.seed * 23 + 6)
    ctx.rule = ('traces: one per (model, L, d, parameter tuple); parameters from {-2..2}^3 incl. all vanishing-coupling combinations '
                '(quick: 12 special + sampled points, thorough: all 124 non-zero tuples), complex integer coefficient vectors for the '
                'linear fermionic operators; non-trivial = L >= 2; distinct = distinct (model, L, d, parameters)')
    ctx.assumptions += ['integer parameters: the dense operator is linear in each parameter, so agreement on {-2..2}^3 (125 points '
                        'of a trilinear family) determines it for all real parameters',
                        'spin-1 / Bose-Hubbard tensors are similarity transformed by diag(site weights), which preserves equality']
    cases = []
    if ctx.replay is not None:
        cases = [tuple(ctx.replay['replay']['case'])]
    else:
        spec = [('ising', None, ctx.pick([1, 2, 3], [1, 2, 3, 4, 5])), ('xxz', None, ctx.pick([1, 2, 3], [1, 2, 3, 4, 5])),
                ('xxz1', None, ctx.pick([1, 2], [1, 2, 3])), ('bose', 2, ctx.pick([1, 2, 3], [1, 2, 3, 4])),
                ('bose', 3, ctx.pick([1, 2], [1, 2, 3])), ('bose', 4, ctx.pick([2], [1, 2])),
                ('fermi_hubbard', None, ctx.pick([1, 2], [1, 2, 3]))]
        for model, d, Ls in spec:
            for L in Ls:
                pts = param_points(rng, ctx.quick, 6 if (model in ('fermi_hubbard', 'bose', 'xxz1') and L >= 2) else 14)
                if ctx.quick and model in ('fermi_hubbard', 'xxz1') and L >= 2:
                    pts = pts[:12:2] + pts[12:]
                for p in pts:
                    if not is_zero_operator(model, L, d, p):
                        cases.append((model, L, d, list(p)))
        for kind in ('linferm_c', 'linferm_a'):
            for L in ctx.pick([1, 2, 3, 4], [1, 2, 3, 4, 5, 6]):
                for _ in range(ctx.pick(4, 25)):
                    f = [(int(rng.integers(-2, 3)), int(rng.integers(-2, 3))) for _ in range(L)]
                    if rng.random() < 0.3:
                        f[int(rng.integers(L))] = (0, 0)
                    if any(x != (0, 0) for x in f):
                        cases.append((kind, L, None, f))
    traces = []
    for k, (model, L, d, p) in enumerate(cases):
        # every third case as a history: call, modify the result in place, call again with equal arguments
        traces.append(record_model(ptn, model, L, d, p, second=(k % 3 == 1) if ctx.replay is None else True))
        ctx.count([model, L, d, p], nontrivial=L >= 2)
    for tr in traces[::max(1, len(traces) // 6)]:
        ctx.sample({k: v for k, v in tr[0].items() if k != 'T'})
    bad = validate_chunks(ctx, 'TraceHamiltonian', 'th', traces, chunk=ctx.pick(12, 60), timeout=3000)
    for idx, why in sorted(bad.items())[:40]:
        clause = why[0][2] if why and len(why[0]) > 2 else 'rejected'
        model, L, d, p = cases[idx]
        ctx.violation(f'hamiltonian:{model}:{clause[:70]}', f'{model}(L={L}, d={d}, params={p}): {clause}', dict(case=[model, L, d, p]))
