"""C04 - inner products, expectation values and environment blocks match dense results.

E: Gaussian-integer MPS / MPO with U(1) sectors: vdot (first argument conjugated), norm^2, operator_average,
   operator_inner_product (bra and ket with independent bond profiles), operator_density_average, the transfer
   contraction steps, compute_right_operator_blocks, apply_local_hamiltonian (one-site at every site position, two-site)
   and apply_local_bond_contraction are logged with their arguments; TraceChain.tla evaluates the dense definitions and
   the projection identity  <B|Heff|A> = <Psi(B)|H|Psi(A)>  exactly, and Hermiticity of Heff whenever Mat(H) is Hermitian.
M: Chain.tla TransferLaw: right-to-left transfer contraction equals the dense inner product for every operand pair.
"""
import numpy as np

from .. import common, canon
from ..observe import snap_array_gauss, snap_gauss, OffLattice
from ..parallel import validate_chunks
from .c03 import family, new_obj, tens, LAWS, G01, G01i


def g(x):
    return snap_gauss(x, what='scalar')


def gauss_like(rng, shape, real=False):
    if real:
        return rng.integers(-2, 3, size=shape).astype(float)
    return (rng.integers(-2, 3, size=shape) + 1j * rng.integers(-2, 3, size=shape)).astype(complex)


def mix_dtypes(rng, obj):
    """make some site tensors real-typed (their imaginary parts are dropped): per-site dtypes differ within one object"""
    for i in range(len(obj.A)):
        if rng.random() < 0.5:
            obj.A[i] = np.ascontiguousarray(obj.A[i].real)


def shift_charges(obj, k):
    """the same state with all bond quantum numbers shifted by k (same physical sector, different leading charge)"""
    for i in range(len(obj.qD)):
        obj.qD[i] = obj.qD[i] + k


def unchanged(arrs, fn):
    from ..observe import digest_arrays
    before = digest_arrays(arrs)
    out = fn()
    return out, bool(before == digest_arrays(arrs))


def hermitian_mpo(ptn, rng, L, d):
    """integer Hermitian MPO: X + X^dagger built with the library's own addition (all-zero charges)"""
    qd = [0] * d
    X = ptn.MPO(qd, [[0]] + [[0] * int(rng.integers(1, 3)) for _ in range(L - 1)] + [[0]], fill=0.0)
    for i in range(L):
        X.A[i] = gauss_like(rng, X.A[i].shape)
    Xd = ptn.MPO(qd, [q.tolist() for q in X.qD], fill=0.0)
    for i in range(L):
        Xd.A[i] = X.A[i].conj().transpose((1, 0, 2, 3))
    return X + Xd


def record_history(ptn, seed, quick):
    rng = np.random.default_rng(seed)
    L = int(rng.choice([1, 2, 2, 3, 3]))
    d = 2 if L >= 3 else int(rng.choice([1, 2, 2, 3]))
    fam = family(ptn, rng, L, d)
    tr = []
    try:
        herm = rng.random() < 0.35
        if herm:
            fam = dict(fam, qd=[0] * d, style='zero', qs_mps=0, qs_mpo=0)
        psi = new_obj(ptn, rng, fam, 'mps', 2)
        chi = new_obj(ptn, rng, fam, 'mps', 3 if L <= 2 else 2)
        op = hermitian_mpo(ptn, rng, L, d) if herm else new_obj(ptn, rng, fam, 'mpo', 2)
        rho = new_obj(ptn, rng, dict(fam, qt_mpo=None), 'mpo', 2)
        if rng.random() < 0.4:
            mix_dtypes(rng, chi)
        if rng.random() < 0.3:
            mix_dtypes(rng, psi)
        if rng.random() < 0.3 and not herm:
            op.A = [np.ascontiguousarray(a.real) for a in op.A]
        if rng.random() < 0.3:
            shift_charges(chi, int(rng.integers(1, 3)))
        inputs = list(psi.A) + list(chi.A) + list(op.A) + list(rho.A)
        tr.append(dict(ev='mps', id=1, T=tens(psi)))
        tr.append(dict(ev='mps', id=2, T=tens(chi)))
        tr.append(dict(ev='mpo', id=3, T=tens(op)))
        tr.append(dict(ev='mpo', id=4, T=tens(rho)))
        from ..observe import digest_arrays
        dig0 = digest_arrays(inputs)
        tr.append(dict(ev='vdot', a=2, b=1, val=g(ptn.vdot(chi, psi))))
        tr.append(dict(ev='vdot', a=1, b=2, val=g(ptn.vdot(psi, chi))))
        tr.append(dict(ev='vdot', a=1, b=1, val=g(ptn.norm(psi)**2)))                 # norm^2 = <psi|psi>
        tr.append(dict(ev='oip', chi=1, op=3, psi=1, val=g(ptn.operator_average(psi, op))))
        tr.append(dict(ev='oip', chi=2, op=3, psi=1, val=g(ptn.operator_inner_product(chi, op, psi))))
        tr.append(dict(ev='oda', rho=4, op=3, val=g(ptn.operator_density_average(rho, op))))
        # environment blocks of (psi, op)
        BR = ptn.compute_right_operator_blocks(psi, op)
        tr.append(dict(ev='right_blocks', psi=tens(psi), op=tens(op), blocks=[snap_array_gauss(b, 'BR') for b in BR]))
        BL = [np.array([[[1]]], dtype=complex)]
        for i in range(L - 1):
            BL.append(ptn.operation.contraction_operator_step_left(psi.A[i], psi.A[i], op.A[i], BL[i]))
        Hd = op.as_matrix()
        is_herm = bool(np.array_equal(Hd, Hd.conj().T))
        for i in range(L):
            At, Bt = gauss_like(rng, psi.A[i].shape), gauss_like(rng, psi.A[i].shape)
            out = ptn.apply_local_hamiltonian(BL[i], BR[i], op.A[i], At)
            tr.append(dict(ev='heff', psi=tens(psi), op=tens(op), site=i + 1, At=snap_array_gauss(At, 'At'), Bt=snap_array_gauss(Bt, 'Bt'),
                           out=snap_array_gauss(out, 'heff'), hermitian=is_herm))
        for i in range(L - 1):
            C = gauss_like(rng, (psi.A[i].shape[2], psi.A[i + 1].shape[1]))
            out = ptn.apply_local_bond_contraction(BL[i + 1], BR[i], C)
            tr.append(dict(ev='keff', psi=tens(psi), op=tens(op), site=i + 1, C=snap_array_gauss(C, 'C'), out=snap_array_gauss(out, 'keff')))
            if d <= 2:
                A0, A1 = gauss_like(rng, psi.A[i].shape), gauss_like(rng, psi.A[i + 1].shape)
                Am = ptn.merge_mps_tensor_pair(A0, A1)
                Wm = ptn.merge_mpo_tensor_pair(op.A[i], op.A[i + 1])
                out2 = ptn.apply_local_hamiltonian(BL[i], BR[i + 1], Wm, Am)
                tr.append(dict(ev='heff2', psi=tens(psi), op=tens(op), site=i + 1, At0=snap_array_gauss(A0, 'A0'), At1=snap_array_gauss(A1, 'A1'),
                               Wm=snap_array_gauss(Wm, 'Wm'), Am=snap_array_gauss(Am, 'Am'), out=snap_array_gauss(out2, 'heff2')))
        if digest_arrays(inputs) != dig0:
            tr.append(dict(ev='flag', ok=False, foreign=True, what='an argument of a pure operation (vdot / norm / averages / blocks / local operators) was modified'))
        # a history: one argument is overwritten in place by the user, then the same quantities are asked for again
        if rng.random() < 0.5:
            cfac = int(rng.choice([2, -1, 3]))
            oid = int(rng.integers(1, 5))
            obj = [psi, chi, op, rho][oid - 1]
            k = int(rng.integers(L))
            if rng.random() < 0.5:
                obj.A[k] *= cfac
            else:
                obj.A[k] = obj.A[k] * cfac
            tr.append(dict(ev='poke', a=oid, cls='mps' if oid <= 2 else 'mpo', c=cfac))
            tr.append(dict(ev='vdot', a=2, b=1, val=g(ptn.vdot(chi, psi))))
            tr.append(dict(ev='vdot', a=1, b=1, val=g(ptn.norm(psi)**2)))
            tr.append(dict(ev='oip', chi=1, op=3, psi=1, val=g(ptn.operator_average(psi, op))))
            tr.append(dict(ev='oip', chi=2, op=3, psi=1, val=g(ptn.operator_inner_product(chi, op, psi))))
            tr.append(dict(ev='oda', rho=4, op=3, val=g(ptn.operator_density_average(rho, op))))
            BR = ptn.compute_right_operator_blocks(psi, op)
            tr.append(dict(ev='right_blocks', psi=tens(psi), op=tens(op), blocks=[snap_array_gauss(b, 'BR') for b in BR]))
        # direct transfer steps with independent bra / ket shapes
        dd = int(rng.integers(1, 4))
        sa, sb = (dd, int(rng.integers(1, 3)), int(rng.integers(1, 3))), (dd, int(rng.integers(1, 3)), int(rng.integers(1, 3)))
        rk = bool(rng.random() < 0.4)          # real ket / operator / block with a complex bra: conjugation side matters
        A, B = gauss_like(rng, sa, real=rk), gauss_like(rng, sb)
        w = (int(rng.integers(1, 3)), int(rng.integers(1, 3)))
        W = gauss_like(rng, (dd, dd) + w, real=rk)
        R = gauss_like(rng, (sa[2], w[1], sb[2]), real=rk)
        Lb = gauss_like(rng, (sa[1], w[0], sb[1]), real=rk)
        opn = ptn.operation
        R2, L2 = gauss_like(rng, (sa[2], sb[2]), real=rk), gauss_like(rng, (sa[1], sb[1]))
        direct = [A, B, W, R, Lb, R2, L2]
        dig1 = digest_arrays(direct)
        # the inputs as they were handed in the first time; every step is asked for twice with the same block objects (a block
        # is used again by the caller: list of blocks kept during a sweep, second bra / ket), both answers must be the index sum
        sA, sB, sW = snap_array_gauss(A, 'A'), snap_array_gauss(B, 'B'), snap_array_gauss(W, 'W')
        sR, sL, sR2, sL2 = snap_array_gauss(R, 'R'), snap_array_gauss(Lb, 'L'), snap_array_gauss(R2, 'R'), snap_array_gauss(L2, 'L')
        for _rep in range(2):
            tr.append(dict(ev='step_right', A=sA, B=sB, W=sW, X=sR, out=snap_array_gauss(opn.contraction_operator_step_right(A, B, W, R), 'out')))
            tr.append(dict(ev='step_left', A=sA, B=sB, W=sW, X=sL, out=snap_array_gauss(opn.contraction_operator_step_left(A, B, W, Lb), 'out')))
            tr.append(dict(ev='cstep_right', A=sA, B=sB, X=sR2, out=snap_array_gauss(opn.contraction_step_right(A, B, R2), 'out')))
            tr.append(dict(ev='cstep_left', A=sA, B=sB, X=sL2, out=snap_array_gauss(opn.contraction_step_left(A, B, L2), 'out')))
        if digest_arrays(direct) != dig1:
            tr.append(dict(ev='flag', ok=False, foreign=True, what='a transfer contraction step modified one of its arguments'))
    except OffLattice as ex:
        tr.append(dict(ev='raise', exc=f'OffLattice: {ex}'))
    except BaseException as ex:  # noqa
        tr.append(dict(ev='raise', exc=f'{type(ex).__name__}: {str(ex)[:80]}'))
    return tr


def run(ctx):
    ptn = common.import_repo()
    rng = np.random.default_rng(ctx.seed * 19 + 4)
    ctx.rule = ('traces: one per random instance (psi, chi, op, rho with Gaussian-integer entries, U(1) sectors, independent bond '
                'profiles; Hermitian op = X + X^dagger in a third of the cases) carrying ~20 logged calls; non-trivial = instance '
                'with non-zero <chi|op|psi>; distinct = distinct seed')
    ctx.assumptions += ['sesquilinear / multilinear routines with data-independent control flow: exactness on Gaussian integers '
                        'of a shape extends to all complex entries of that shape', 'sizes L <= 3, d <= 3, D <= 3']
    ctx.model('Chain', 'm_transfer_L2', constants=dict(L=2, D=1, Kind='"mps"'), defs=dict(ENT=G01i), invariants=['TransferLaw'])
    ctx.model('Chain', 'm_transfer_L3', constants=dict(L=3, D=1, Kind='"mps"'), defs=dict(ENT='{<<0,0>>,<<0,1>>}'), invariants=['TransferLaw'])
    seeds = [ctx.replay['replay']['seed']] if ctx.replay is not None else [int(x) for x in rng.integers(1 << 30, size=ctx.pick(160, 4000))]
    traces = [record_history(ptn, s, ctx.quick) for s in seeds]
    for s, tr in zip(seeds, traces):
        nz = any(r.get('ev') == 'oip' and r.get('val') != [0, 0] for r in tr)
        ctx.count(s, nontrivial=nz)
    ctx.notes['logged_calls'] = sum(len(tr) for tr in traces)
    ctx.notes['hermitian_instances'] = sum(1 for tr in traces if any(r.get('hermitian') for r in tr))
    for tr in traces[1:len(traces):max(1, len(traces) // 3)]:
        ctx.sample([{k: (v if k in ('ev', 'val', 'site', 'hermitian', 'a', 'b', 'chi', 'op', 'psi', 'rho') and not isinstance(v, list) or k == 'val' else '...') for k, v in r.items()} for r in tr][:12])
    bad = validate_chunks(ctx, 'TraceChain', 'tc4', traces, chunk=ctx.pick(10, 100), timeout=3000)
    for idx, why in sorted(bad.items())[:40]:
        clause = why[0][2] if why and len(why[0]) > 2 else 'rejected'
        ctx.violation(f'contract:{why[0][1] if why else "?"}:{clause[:60]}', f'instance seed {seeds[idx]}: record {why[0][0] if why else "?"}: {clause}',
                      dict(seed=seeds[idx]))
