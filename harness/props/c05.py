"""C05 - operator chains compile to an equivalent operator graph and MPO.

M: OpChains.tla (the compiler, any minimum vertex cover) model checked over all chain lists of a bounded universe:
   DenPreserved, NeverRaised, ResultOK, MpoOK, PartitionOK, WidthBound; negative control LegacyFinish (finding F1).
S/E: every chain list of the quick universe, plus random larger ones, is compiled by the real from_opchains with
   wrappers on _site_partition_halfchains / minimum_vertex_cover; the anchored state (graph so far, vlist_next,
   coeffs_next) is recorded at every site and TraceOpChains.tla evaluates the model's invariants on it; the returned
   graph's free-algebra polynomial is recomputed by TLC, and MPO.from_opgraph is checked entry by entry.
"""
import itertools
import random
import sys

import numpy as np

from .. import common, wrap
from ..observe import graph_json, snap_int, snap_array_int, OffLattice
from ..parallel import validate_chunks


def chain_universe(L, oids, coefs, qs):
    out = []
    for n in range(1, L + 1):
        for s in range(0, L - n + 1):
            for w in itertools.product(oids, repeat=n):
                for q in itertools.product(qs, repeat=n - 1):
                    for c in coefs:
                        out.append(dict(oids=list(w), qnums=[0] + list(q) + [0], coeff=c, istart=s))
    return out


def record_compile(ptn, L, idoid, chains, phys=None):
    """chains: list of dicts.  phys: None or dict(qd, opmap {oid: int matrix}) for the MPO stage."""
    og = ptn.opgraph
    tr = [dict(ev='chains', L=L, idoid=idoid, chains=chains, padded=[])]
    try:
        # direct probe of OpChain.padded / __eq__ (strict-only clauses of TChains; if the probe cannot be made the list stays empty)
        try:
            probe = []
            for c in chains:
                oc = ptn.OpChain(list(c['oids']), list(c['qnums']), float(c['coeff']), c['istart'])
                pc = oc.padded(L, idoid)
                shifted = ptn.OpChain(list(c['oids']), list(c['qnums']), float(c['coeff']), c['istart'] + 1)
                probe.append(dict(oids=[int(x) for x in pc.oids], qnums=[int(x) for x in pc.qnums], istart=int(pc.istart),
                                  coeff=snap_int(pc.coeff, what='coeff'),
                                  eq_self=bool(oc == ptn.OpChain(list(c['oids']), list(c['qnums']), float(c['coeff']), c['istart'])),
                                  eq_shifted=bool(oc == shifted)))
            tr[0]['padded'] = probe
        except OffLattice:
            raise
        except Exception:
            tr[0]['padded'] = []
        def mk_part(orig):
            def part(hcs, coeffs):
                g = None
                try:
                    g = wrap.caller_locals().get('graph')
                except Exception:
                    pass
                if g is not None:
                    tr.append(dict(ev='site',
                                   hc=[dict(oids=[int(o) for o in h.oids], qnums=[int(q) for q in h.qnums], nidl=int(h.nidl))
                                       for h in hcs],
                                   co=[snap_int(c, what='coeffs_next') for c in coeffs], g=graph_json(g)))
                r = orig(hcs, coeffs)
                ulist, vlist, edges, gamma = r
                if g is not None:
                    tr.append(dict(ev='partition',
                                   us=[[int(u.oid), int(u.qnum0), int(u.qnum1), int(u.nidl)] for u in ulist],
                                   vs=[[[int(o) for o in v.oids], [int(q) for q in v.qnums]] for v in vlist],
                                   edges=[[int(i), int(j)] for i, j in edges],
                                   gamma=[snap_int(gamma[e], what='gamma') for e in edges]))
                return r
            return part

        def mk_cover(orig):
            def cover(bg):
                uc, vc = orig(bg)
                if tr[-1]['ev'] == 'partition':
                    tr.append(dict(ev='cover', uc=[int(x) for x in uc], vc=[int(x) for x in vc]))
                return uc, vc
            return cover

        objs = [ptn.OpChain(list(c['oids']), list(c['qnums']), float(c['coeff']), c['istart']) for c in chains]
        with wrap.patched((og, '_site_partition_halfchains', mk_part), (og, 'minimum_vertex_cover', mk_cover), trace=tr):
            g = og.OpGraph.from_opchains(objs, L, idoid)
        try:
            cons = bool(g.is_consistent())
        except Exception:
            cons = False
        tr.append(dict(ev='graph', g=graph_json(g), cons=cons, length=int(g.length)))
        if phys is not None:
            opmap = {k: np.array(v, dtype=float) for k, v in phys['opmap'].items()}
            mpo = ptn.MPO.from_opgraph(phys['qd'], g, opmap, compute_nid_map=True)
            tr.append(dict(ev='mpo', d=len(phys['qd']), qd=[int(q) for q in phys['qd']],
                           opmap=[dict(oid=int(k), m=np.array(v).astype(int).tolist()) for k, v in phys['opmap'].items()],
                           A=[snap_array_int(a, what='MPO tensor') for a in mpo.A],
                           qD=[[int(q) for q in qb] for qb in mpo.qD],
                           nidmap=[[int(n), int(l), int(i)] for n, (l, i) in sorted(mpo.nid_map.items())]))
    except OffLattice as ex:
        tr.append(dict(ev='raise', exc=f'OffLattice: {ex}'))
    except BaseException as ex:  # noqa
        tr.append(dict(ev='raise', exc=f'{type(ex).__name__}: {str(ex)[:80]}'))
    return tr


def random_phys_case(rng, L, zeros=0.35):
    """charge-consistent chains over a small operator alphabet with integer matrices"""
    d = rng.choice([2, 2, 3])
    qd = list(range(d)) if rng.random() < 0.7 else [0] * d
    noids = rng.randint(2, 5)
    delta = {0: 0}
    opmap = {0: np.eye(d, dtype=int).tolist()}
    for o in range(1, noids + 1):
        dl = rng.choice([-1, 0, 1]) if any(qd) else 0
        m = np.zeros((d, d), dtype=int)
        for s in range(d):
            for t in range(d):
                if qd[s] - qd[t] == dl:
                    m[s, t] = rng.choice([-2, -1, 1, 2, 3])
        if not m.any():
            dl = 0
            m = np.diag([rng.choice([-1, 1, 2]) for _ in range(d)])
        delta[o] = dl
        opmap[o] = m.tolist()
    chains = []
    for _ in range(rng.randint(1, 8)):
        for _try in range(30):
            n = rng.randint(1, L)
            s = rng.randint(0, L - n)
            w = [rng.randint(0, noids) for _ in range(n)]
            if sum(delta[o] for o in w) == 0:
                break
        else:
            w, n, s = [0], 1, 0
        q = [0]
        for o in w:
            q.append(q[-1] + delta[o])
        chains.append(dict(oids=w, qnums=q, coeff=rng.choice([-3, -2, -1, 1, 2, 3]), istart=s))
    if rng.random() < 0.3 and chains:
        c = dict(rng.choice(chains))
        c['coeff'] = -c['coeff'] if rng.random() < 0.5 else rng.choice([1, 2])
        chains.append(c)
    if rng.random() < zeros:
        # chains with an exactly vanishing coefficient (sparse integrals): isolated, in adjacent runs, spanning the whole lattice
        for _ in range(rng.randint(1, 2)):
            run = []
            for _ in range(rng.randint(1, 3)):
                c = dict(rng.choice(chains))
                if rng.random() < 0.4:
                    c = dict(oids=[0] * L, qnums=[0] * (L + 1), coeff=0, istart=0)
                c['coeff'] = 0
                run.append(c)
            k = rng.randint(0, len(chains))
            chains[k:k] = run
    return dict(L=L, idoid=0, chains=chains, phys=dict(qd=qd, opmap=opmap))


MODEL_INV = ['DenPreserved', 'NeverRaised', 'ResultOK', 'MpoOK', 'PartitionOK', 'WidthBound', 'WidthBoundDone']


def model_consts(L, maxchains, legacy=False, anycover=False, oids='{0,1}', qs='{0,1}'):
    return dict(L=L, OIDS=oids, IdOid=0, QS=qs, MaxChains=maxchains,
                LegacyFinish='TRUE' if legacy else 'FALSE', AnyCover='TRUE' if anycover else 'FALSE')


def run(ctx):
    ptn = common.import_repo()
    rng = random.Random(ctx.seed * 1299709 + 5)
    ctx.rule = ('model: all multisets of <= MaxChains chains (all start sites, lengths, oids incl. the identity, '
                'interior charges, coefficients) and every choice of minimum vertex cover; traces: one per compiled chain '
                'list; non-trivial = list with >= 2 chains or a coefficient != 1; distinct = distinct chain list')
    ctx.assumptions += ['chain boundary charges are zero (precondition of from_opchains: one start and one end node)',
                        'integer coefficients and integer operator maps, so that all comparisons are exact in TLC',
                        'the partial graph inside from_opchains is read from the caller frame of the wrapped '
                        '_site_partition_halfchains; without it only the result clauses are checked']

    # ------------------------------------------------------------------ M
    ctx.model('OpChains', 'm_L2', constants=model_consts(2, 2), defs=dict(COEFS='{-1,1,2}'), invariants=MODEL_INV,
              coverage=True, timeout=900)
    ctx.model('OpChains', 'm_L1', constants=model_consts(1, 3, oids='{0,1,2}'), defs=dict(COEFS='{-2,-1,1,2}'),
              invariants=MODEL_INV, timeout=900)
    # negative control: the pinned code's final assertion (finding F1) is reachable with ONE chain of coefficient 2
    ctx.model('OpChains', 'm_F1_legacy', constants=model_consts(1, 1, legacy=True), defs=dict(COEFS='{1,2}'),
              invariants=['NeverRaised'], expect_violation='NeverRaised')
    if not ctx.quick:
        ctx.model('OpChains', 'm_L2_3', constants=model_consts(2, 3), defs=dict(COEFS='{-1,1,2}'),
                  invariants=MODEL_INV, timeout=3000)
        ctx.model('OpChains', 'm_L3', constants=model_consts(3, 2, qs='{0,1}'), defs=dict(COEFS='{-1,1,2}'),
                  invariants=MODEL_INV, timeout=3000)

    # ------------------------------------------------------------------ S / E
    cases = []
    if ctx.replay is not None:
        cases = [ctx.replay['replay']['case']]
    else:
        uni2 = chain_universe(2, (0, 1), (-1, 1, 2), (0, 1))
        uni1 = chain_universe(1, (0, 1, 2), (-2, -1, 1, 2), (0,))
        for c in uni2:
            cases.append(dict(L=2, idoid=0, chains=[c], phys=None))
        for c in uni1:
            cases.append(dict(L=1, idoid=0, chains=[c], phys=None))
        pairs = list(itertools.combinations_with_replacement(range(len(uni2)), 2))
        if ctx.quick:
            pairs = rng.sample(pairs, 220)
        for a, b in pairs:
            cases.append(dict(L=2, idoid=0, chains=[uni2[a], uni2[b]], phys=None))
        for a, b in itertools.combinations_with_replacement(range(len(uni1)), 2):
            cases.append(dict(L=1, idoid=0, chains=[uni1[a], uni1[b]], phys=None))
        uni3 = chain_universe(3, (0, 1, 2), (-2, -1, 1, 2), (0, 1))
        for _ in range(ctx.pick(150, 5000)):
            k = rng.randint(1, 5)
            cs = [dict(rng.choice(uni3)) for _ in range(k)]
            if rng.random() < 0.4:
                dup = dict(rng.choice(cs))
                dup['coeff'] = rng.choice([-dup['coeff'], dup['coeff'], 1])
                cs.append(dup)
            if rng.random() < 0.2:
                z = dict(rng.choice(uni3))
                z['coeff'] = 0
                cs.insert(rng.randrange(len(cs) + 1), z)
            cases.append(dict(L=3, idoid=0, chains=cs, phys=None))
        for _ in range(ctx.pick(250, 6000)):
            cases.append(random_phys_case(rng, rng.choice([1, 2, 3, 4, 4, 5, 6])))
        # identity id different from 0, longer lattice than any chain
        # negative operator ids as used by the built-in models (-1, -2): chains that differ only in such ids
        for _ in range(ctx.pick(60, 1000)):
            L = rng.choice([2, 3, 4])
            ids = [-2, -1, 0, 1, 2]
            cs = []
            for _k in range(rng.randint(2, 4)):
                n = rng.randint(1, L)
                cs.append(dict(oids=[rng.choice(ids) for _ in range(n)], qnums=[0] * (n + 1), coeff=rng.choice([-3, -1, 1, 2]), istart=rng.randint(0, L - n)))
            tw = dict(cs[0])
            tw['oids'] = [(-1 if o == -2 else -2 if o == -1 else o) for o in tw['oids']]
            tw['coeff'] = rng.choice([1, 2, -3])
            cs.append(tw)
            cases.append(dict(L=L, idoid=0, chains=cs, phys=None))
        for _ in range(ctx.pick(30, 500)):
            cs = [dict(rng.choice(uni2)) for _ in range(rng.randint(1, 3))]
            for c in cs:
                c['oids'] = [7 if o == 0 else o for o in c['oids']]
            cases.append(dict(L=rng.choice([2, 3, 5]), idoid=7, chains=cs, phys=None))

    traces = []
    for c in cases:
        tr = record_compile(ptn, c['L'], c['idoid'], c['chains'], c.get('phys'))
        traces.append(tr)
        ctx.count(c, nontrivial=len(c['chains']) >= 2 or any(x['coeff'] != 1 for x in c['chains']))
    n_sites = sum(1 for tr in traces for r in tr if r['ev'] == 'site')
    ctx.notes['site_states_checked'] = n_sites
    ctx.notes['mpo_events'] = sum(1 for tr in traces for r in tr if r['ev'] == 'mpo')
    for tr in traces[2:2000:450]:
        ctx.sample([{k: v for k, v in r.items() if k not in ('g', 'A', 'opmap')} for r in tr][:6])
    bad = validate_chunks(ctx, 'TraceOpChains', 'tc', traces, chunk=ctx.pick(60, 400),
                          relax=lambda tr: [r for r in tr if r.get('ev') not in ('site', 'partition', 'cover')])
    for idx, why in sorted(bad.items())[:40]:
        c = cases[idx]
        clause = why[0][2] if why and len(why[0]) > 2 else 'rejected'
        ev = why[0][1] if why else '?'
        key = 'from_opchains:' + ('raise:' + clause.split(':')[0] if ev == 'raise' else ev + ':' + clause)
        ctx.violation(key, f'from_opchains(L={c["L"]}, {len(c["chains"])} chains '
                           f'{[(x["oids"], x["coeff"], x["istart"]) for x in c["chains"]][:4]}) rejected at record '
                           f'{why[0][0] if why else "?"} ({ev}): {clause}', dict(case=c, trace=traces[idx]))
