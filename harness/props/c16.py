"""C16 - operator-graph rewrites preserve the denoted operator and graph consistency.

M: OpGraph.tla model checked over all tree-expanded term graphs of a bounded universe and all rewrite sequences.
S (spec -> code): behaviours produced by `tlc -simulate` on OpGraph.tla are replayed on real OpGraph objects.
S/E (code -> spec): random histories on real graphs (tree expansions, random layered graphs with parallel and
   multi-operator edges, colliding ids) are recorded after every rewrite and validated by TraceOpGraph.tla, which
   recomputes the model post-state, the free-algebra polynomial and the consistency predicate of every state.
"""
import copy
import random

from .. import common, wrap, simtrace, tlc
from ..observe import graph_json, build_graph, OffLattice
from ..parallel import validate_chunks


# ------------------------------------------------------------------------------------------------- generators
def term_graph(L, terms, relabel=None):
    """Mirror of OpGraph!TermGraph: one path per term, sharing only the terminals. terms: (word, coeff, charges)"""
    nodes = {0: dict(id=0, q=0, ein=[], eout=[]), 1: dict(id=1, q=0, ein=[], eout=[])}
    edges = []
    for t, (w, c, qs) in enumerate(terms, start=1):
        def nid(j):
            return 0 if j == 0 else 1 if j == L else 2 + (t - 1) * (L - 1) + (j - 1)
        for j in range(1, L):
            nodes[nid(j)] = dict(id=nid(j), q=qs[j - 1], ein=[], eout=[])
        for j in range(1, L + 1):
            eid = (t - 1) * L + j - 1
            edges.append(dict(id=eid, src=nid(j - 1), dst=nid(j), ops=[[w[j - 1], c if j == 1 else 1]]))
            nodes[nid(j - 1)]['eout'].append(eid)
            nodes[nid(j)]['ein'].append(eid)
    g = dict(nodes=[nodes[k] for k in sorted(nodes)], edges=edges, term=[0, 1])
    return relabel_graph(g, relabel) if relabel else g


def relabel_graph(g, maps):
    fn, fe = maps
    return dict(nodes=[dict(id=fn(n['id']), q=n['q'], ein=[fe(e) for e in n['ein']], eout=[fe(e) for e in n['eout']])
                       for n in g['nodes']],
                edges=[dict(id=fe(e['id']), src=fn(e['src']), dst=fn(e['dst']), ops=e['ops']) for e in g['edges']],
                term=[fn(g['term'][0]), fn(g['term'][1])])


def random_relabel(rng, g):
    nids = [n['id'] for n in g['nodes']]
    eids = [e['id'] for e in g['edges']]
    kind = rng.choice(['same', 'shift', 'perm', 'far', 'sparse'])
    if kind == 'same':
        return g
    if kind == 'shift':
        k = rng.randint(1, 3)
        return relabel_graph(g, (lambda n: n + k, lambda e: e + k))
    if kind == 'far':
        return relabel_graph(g, (lambda n: n + 40, lambda e: e + 40))
    pool_n = rng.sample(range(0, len(nids) + (0 if kind == 'perm' else 12)), len(nids))
    pool_e = rng.sample(range(0, len(eids) + (0 if kind == 'perm' else 12)), len(eids)) if eids else []
    mn = dict(zip(nids, pool_n))
    me = dict(zip(eids, pool_e))
    return relabel_graph(g, (lambda n: mn[n], lambda e: me[e]))


def random_terms(rng, L, n, oids=(0, 1, 2), coefs=(-2, -1, 1, 2, 3), qs=(0, 1)):
    base = [tuple(rng.choice(oids) for _ in range(L)) for _ in range(max(1, n // 2 + 1))]
    terms = []
    for _ in range(n):
        w = rng.choice(base) if rng.random() < 0.5 else tuple(rng.choice(oids) for _ in range(L))
        terms.append((list(w), rng.choice(coefs), [rng.choice(qs) if rng.random() < 0.4 else 0 for _ in range(L - 1)]))
    return terms


def layered_graph(rng, L, maxw=3, oids=(0, 1, 2), coefs=(-2, -1, 1, 2), qs=(0, 1)):
    """random consistent layered graph: every node has an in- and an out-edge; parallel and multi-operator edges"""
    widths = [1] + [rng.randint(1, maxw) for _ in range(L - 1)] + [1]
    layers = []
    nid = 0
    nodes = {}
    for lev, w in enumerate(widths):
        lay = []
        for _ in range(w):
            nodes[nid] = dict(id=nid, q=0 if lev in (0, L) else rng.choice(qs), ein=[], eout=[])
            lay.append(nid)
            nid += 1
        layers.append(lay)
    edges = []

    def add_edge(a, b):
        eid = len(edges)
        nops = rng.choice([1, 1, 1, 2, 3])
        ops = sorted([[o, rng.choice(coefs)] for o in rng.sample(list(oids), min(nops, len(oids)))])
        edges.append(dict(id=eid, src=a, dst=b, ops=ops))
        nodes[a]['eout'].append(eid)
        nodes[b]['ein'].append(eid)
    for lev in range(L):
        A, B = layers[lev], layers[lev + 1]
        for a in A:
            add_edge(a, rng.choice(B))
        for b in B:
            if not nodes[b]['ein']:
                add_edge(rng.choice(A), b)
        for _ in range(rng.randint(0, 3)):
            add_edge(rng.choice(A), rng.choice(B))      # may create parallel edges
    return dict(nodes=[nodes[k] for k in sorted(nodes)], edges=edges, term=[layers[0][0], layers[-1][0]])


# ------------------------------------------------------------------------------------------------- recording
def _cons(g):
    try:
        return bool(g.is_consistent())
    except Exception:
        return False


def mergeable_pairs(g, strict):
    """Python mirror of OpGraph!CanMerge (strict=False) / Mergeable (strict=True), used only to *choose* arguments."""
    out = []
    for d in (0, 1):
        for e1 in g.edges.values():
            for e2 in g.edges.values():
                if e1.eid == e2.eid or e1.nids[d] != e2.nids[d]:
                    continue
                if e1.nids[1 - d] == e2.nids[1 - d]:
                    out.append((e1.eid, e2.eid, d))
                    continue
                n1, n2 = g.nodes[e1.nids[1 - d]], g.nodes[e2.nids[1 - d]]
                if e1.opics == e2.opics and len(n1.eids[d]) == 1 and len(n2.eids[d]) == 1 and n1.qnum == n2.qnum:
                    out.append((e1.eid, e2.eid, d))
    return out


def run_history(ptn, init, ops):
    """Apply ops to the real graph built from `init`; returns the trace (list of records)."""
    OG = ptn.opgraph.OpGraph
    tr = []
    try:
        g = build_graph(ptn, init)
        tr.append(dict(ev='init', g=graph_json(g), cons=_cons(g)))
        state = dict(in_add=False)

        def mk_merge(orig):
            def merge_edges(self, eid1, eid2, direction):
                r = orig(self, eid1, eid2, direction)
                if state.get('log_merges') and self is g:
                    tr.append(dict(ev='smerge', e1=int(eid1), e2=int(eid2), dir=int(direction), g=graph_json(self),
                                   cons=_cons(self)))
                return r
            return merge_edges

        def mk_rename(orig, key):
            def rename(self, cur, new):
                if state['in_add'] and self is not g:
                    state[key].append(int(cur))
                return orig(self, cur, new)
            return rename

        def mk_simplify(orig):
            def simplify(self):
                if state['in_add'] and self is g:
                    if state['have_rename_hooks']:
                        ordn, orde = state['ren_n'][:-2], state['ren_e']
                    else:       # canonical order assumed when the rename methods cannot be observed
                        hj = state['h_json']
                        ordn = sorted(set(n['id'] for n in hj['nodes']) & set(state['g_nodes']))
                        orde = sorted(set(e['id'] for e in hj['edges']) & set(state['g_edges']))
                    tr.append(dict(ev='add_union', g=graph_json(self), cons=_cons(self), ordn=ordn, orde=orde))
                    state['log_merges'] = True
                return orig(self)
            return simplify

        with wrap.patched((OG, 'merge_edges', mk_merge), (OG, 'simplify', mk_simplify),
                          (OG, 'rename_node_id', lambda o: mk_rename(o, 'ren_n')),
                          (OG, 'rename_edge_id', lambda o: mk_rename(o, 'ren_e')), trace=tr) as missing:
            state['have_rename_hooks'] = not any('rename' in m for m in missing)
            for op in ops:
                kind = op[0]
                try:
                    if kind == 'simplify':
                        tr.append(dict(ev='simplify_begin'))
                        state['log_merges'] = True
                        g.simplify()
                        state['log_merges'] = False
                        tr.append(dict(ev='simplify_end', g=graph_json(g), cons=_cons(g)))
                    elif kind == 'merge':
                        _, e1, e2, d = op
                        state['log_merges'] = False
                        g.merge_edges(e1, e2, d)
                        tr.append(dict(ev='merge', e1=e1, e2=e2, dir=d, g=graph_json(g), cons=_cons(g)))
                    elif kind == 'merge_any':
                        cand = mergeable_pairs(g, False)
                        if not cand:
                            continue
                        e1, e2, d = cand[op[1] % len(cand)]
                        g.merge_edges(e1, e2, d)
                        tr.append(dict(ev='merge', e1=int(e1), e2=int(e2), dir=int(d), g=graph_json(g), cons=_cons(g)))
                    elif kind in ('rename_node', 'rename_edge'):
                        a, b = op[1], op[2]
                        if a == 'pick':
                            ids = sorted(g.nodes if kind == 'rename_node' else g.edges)
                            if not ids:
                                continue
                            a = ids[op[3] % len(ids)]
                            if b == 'taken':
                                b = ids[(op[3] // 7) % len(ids)]
                            elif b == 'fresh':
                                b = max(ids) + 1 + (op[3] % 3)
                        op = (kind, a, b)
                        getattr(g, kind + '_id')(a, b)
                        tr.append(dict(ev=kind, a=int(a), b=int(b), g=graph_json(g), cons=_cons(g)))
                    elif kind == 'flip':
                        g.flip()
                        tr.append(dict(ev='flip', g=graph_json(g), cons=_cons(g)))
                    elif kind == 'depths':
                        tr.append(dict(ev='depths', length=int(g.length),
                                       depths=[[int(n), int(g.node_depth(n, 0)), int(g.node_depth(n, 1))] for n in sorted(g.nodes)]))
                    elif kind == 'insert_chain':
                        # two existing nodes whose levels differ by the chain length
                        lev = {n: g.node_depth(n, 0) for n in g.nodes}
                        r = random.Random(op[1])
                        pairs = [(a, b) for a in lev for b in lev if lev[b] - lev[a] >= 1]
                        if not pairs:
                            continue
                        a, b = pairs[r.randrange(len(pairs))]
                        n = lev[b] - lev[a]
                        oids = [r.choice([0, 1, 2]) for _ in range(n)]
                        coeffs = [float(r.choice([-2, -1, 1, 2, 3])) for _ in range(n)]
                        qs = [r.choice([0, 1]) for _ in range(n - 1)]
                        d = r.choice([0, 1])
                        if d == 1:
                            g._insert_opchain(a, b, oids, coeffs, qs, 1)
                            ra, rb = a, b
                        else:
                            g._insert_opchain(b, a, oids, coeffs, qs, 0)
                            ra, rb = b, a
                        tr.append(dict(ev='insert_chain', a=int(ra), b=int(rb), oids=oids, coeffs=[int(c) for c in coeffs], qs=qs, dir=d,
                                       g=graph_json(g), cons=_cons(g)))
                    elif kind == 'add':
                        h = build_graph(ptn, op[1])
                        tr.append(dict(ev='add_begin', h=graph_json(h)))
                        state.update(ren_n=[], ren_e=[], h_json=graph_json(h), g_nodes=list(g.nodes), g_edges=list(g.edges))
                        state['in_add'] = True
                        try:
                            g.add(h)
                        finally:
                            state['in_add'] = False
                            state['log_merges'] = False
                        tr.append(dict(ev='add_end', g=graph_json(g), cons=_cons(g), h_after=graph_json(h),
                                       h_cons=_cons(h)))
                    else:
                        raise ValueError(kind)
                except OffLattice:
                    raise
                except Exception as ex:  # noqa
                    rec = dict(ev='raise', op=kind, exc=type(ex).__name__, g=graph_json(g), cons=_cons(g),
                               a=-1, b=-1, dir=-1)
                    if kind in ('rename_node', 'rename_edge') and op[1] != 'pick':
                        rec.update(a=int(op[1]), b=int(op[2]))
                    tr.append(rec)
                    if tr[-2].get('ev') in ('add_begin', 'simplify_begin') or kind in ('add', 'simplify', 'merge'):
                        break           # the graph may be half-updated: the trace ends here and will be rejected
    except OffLattice as ex:
        tr.append(dict(ev='offlattice', what=str(ex)))
    return tr


def graph_from_tla(G):
    nodes = simtrace.as_map(G['nodes'])
    edges = simtrace.as_map(G['edges'])
    return dict(nodes=[dict(id=k, q=v['q'], ein=sorted(simtrace.as_set(v['ein'])), eout=sorted(simtrace.as_set(v['eout'])))
                       for k, v in sorted(nodes.items())],
                edges=[dict(id=k, src=v['src'], dst=v['dst'], ops=sorted([list(t) for t in simtrace.as_set(v['ops'])]))
                       for k, v in sorted(edges.items())],
                term=list(G['term']))


def norm(gj):
    """order-insensitive normal form of a graph JSON (for comparing the code's graph with a TLC state)"""
    return (tuple(sorted((n['id'], n['q'], tuple(sorted(n['ein'])), tuple(sorted(n['eout']))) for n in gj['nodes'])),
            tuple(sorted((e['id'], e['src'], e['dst'], tuple(sorted(map(tuple, e['ops'])))) for e in gj['edges'])),
            tuple(gj['term']))


MODEL_INV = ['DenOK', 'DenTwoWays', 'ConsistentOK', 'LengthOK']
MODEL_PROP = ['MergeShrinks', 'RenameKeepsShape']
TRACE_CONST = dict(L=1, OIDS='{0}', QS='{0}', MaxTerms=1, MaxTerms2=0, MaxOps=0, RELABELS='{}', COEFS='{1}', COEFS2='{1}')


def run(ctx):
    ptn = common.import_repo()
    rng = random.Random(ctx.seed * 104729 + 16)
    ctx.rule = ('model: all tree-expanded graphs of <= MaxTerms terms over the configured alphabets, all rewrite '
                'sequences (merges to the fixed point, <= MaxOps renames/flips/adds with colliding, shifted, swapped '
                'and disjoint ids); traces: one per history of 3-8 rewrites on a real OpGraph; non-trivial = history '
                'in which at least one merge or add happened; distinct = distinct (initial graph, operation list)')
    ctx.assumptions += ['coefficients are small integers so that the free-algebra polynomial is exact in TLC',
                        'merge_edges / simplify are observed by attribute wrappers that log after the original returns']

    # -------------------------------------------------------------------------------- M
    base = dict(L=2, OIDS='{0,1}', QS='{0,1}', MaxTerms=2, MaxTerms2=1, MaxOps=1, RELABELS='{"same","swap"}')
    ctx.model('OpGraph', 'm_L2', constants=base, defs=dict(COEFS='{-1,1,2}', COEFS2='{1}'),
              invariants=MODEL_INV, properties=MODEL_PROP, coverage=True, timeout=900)
    c1 = dict(base, L=1, MaxTerms=3, MaxOps=ctx.pick(1, 2), RELABELS='{"same","shift","swap","far"}')
    ctx.model('OpGraph', 'm_L1', constants=c1, defs=dict(COEFS='{-1,1,2}', COEFS2='{1,-1}'),
              invariants=MODEL_INV, properties=MODEL_PROP, timeout=900)
    if not ctx.quick:
        c3 = dict(base, L=3, MaxTerms=2, MaxTerms2=1, MaxOps=1, QS='{0,1}')
        ctx.model('OpGraph', 'm_L3', constants=c3, defs=dict(COEFS='{-1,1}', COEFS2='{1}'),
                  invariants=MODEL_INV, properties=MODEL_PROP, timeout=3000)
        c2 = dict(base, L=2, MaxTerms=3, MaxTerms2=1, MaxOps=1, RELABELS='{"same","shift","swap","far"}')
        ctx.model('OpGraph', 'm_L2_3terms', constants=c2, defs=dict(COEFS='{-1,1,2}', COEFS2='{1}'),
                  invariants=MODEL_INV, properties=MODEL_PROP, timeout=3000)

    # -------------------------------------------------------------------------------- spec -> code
    histories = []      # (init graph json, ops, expected states or None)
    if ctx.replay is not None:
        histories = [(ctx.replay['replay']['init'], [tuple(o) for o in ctx.replay['replay']['ops']], None)]
    else:
        simc = dict(L=3, OIDS='{0,1}', QS='{0,1}', MaxTerms=3, MaxTerms2=1, MaxOps=3,       # larger alphabets make every simulation step enumerate > 10^4 successors
                    RELABELS='{"same","shift","swap","far"}')
        prefix = ctx.work + '/sim'
        r = tlc.run('OpGraph', ctx.work, 'sim', workers=1, constants=simc, defs=dict(COEFS='{-1,1,2}', COEFS2='{1,-1,2}'),
                    invariants=['DenOK', 'ConsistentOK'], simulate=dict(num=ctx.pick(100, 1500), file=prefix),
                    depth=16, seed=ctx.seed + 1, timeout=3000)
        ctx._account('sim', 'OpGraph', r, 'simulate')
        if not r.ok:
            raise common.SpecError(f'OpGraph simulation violated {r.violated}')
        behaviours = simtrace.load_all(prefix)
        for b in behaviours:
            k0 = next((i for i, (_, st) in enumerate(b) if st['last']['op'] == 'init'), None)
            if k0 is None:
                continue
            init = graph_from_tla(b[k0][1]['G'])
            ops, expect = [], []
            for action, st in b[k0 + 1:]:
                last = st['last']
                if last['op'] == 'merge':
                    ops.append(('merge', last['e1'], last['e2'], last['dir']))
                    expect.append(graph_from_tla(st['G']))
                elif last['op'] in ('rename_node', 'rename_edge'):
                    ops.append((last['op'], last['a'], last['b']))
                    expect.append(graph_from_tla(st['G']))
                elif last['op'] == 'flip':
                    ops.append(('flip',))
                    expect.append(graph_from_tla(st['G']))
                elif last['op'] == 'add':
                    # the real add() also simplifies: the behaviour is cut here and continued by the code
                    ops.append(('add', graph_from_tla(last['h'])))
                    expect.append(None)
                    break
            ops.append(('simplify',))
            expect.append(None)
            histories.append((init, ops, expect))
        ctx.log(f'{len(behaviours)} TLC-simulated behaviours of OpGraph.tla turned into histories')
        ctx.notes['behaviours_replayed'] = len(behaviours)

        # ---------------------------------------------------------------------------- random histories
        for _ in range(ctx.pick(250, 6000)):
            L = rng.choice([1, 2, 2, 3, 3, 4])
            if rng.random() < 0.55:
                init = term_graph(L, random_terms(rng, L, rng.randint(1, 5)))
            else:
                init = layered_graph(rng, L)
            if rng.random() < 0.5:
                init = random_relabel(rng, init)
            ops = []
            for _ in range(rng.randint(2, 7)):
                k = rng.random()
                if k < 0.22:
                    ops.append(('simplify',))
                elif k < 0.40:
                    ops.append(('merge_any', rng.randrange(1 << 20)))
                elif k < 0.52:
                    ops.append(('rename_node', 'pick', rng.choice(['fresh', 'fresh', 'taken']), rng.randrange(1 << 20)))
                elif k < 0.62:
                    ops.append(('rename_edge', 'pick', rng.choice(['fresh', 'fresh', 'taken']), rng.randrange(1 << 20)))
                elif k < 0.70:
                    ops.append(('flip',))
                elif k < 0.76:
                    ops.append(('depths',))
                elif k < 0.82:
                    ops.append(('insert_chain', rng.randrange(1 << 30)))
                else:
                    other = term_graph(L, random_terms(rng, L, rng.randint(1, 3))) if rng.random() < 0.6 \
                        else layered_graph(rng, L)
                    if rng.random() < 0.3:
                        ho = build_graph(ptn, other)
                        ho.simplify()
                        other = graph_json(ho)
                        for n in other['nodes']:
                            n.pop('key')
                        for e in other['edges']:
                            e.pop('key')
                    ops.append(('add', random_relabel(rng, other)))
            histories.append((init, ops, None))

    traces = []
    for init, ops, expect in histories:
        flipped = [False]
        tr = run_history(ptn, init, ops)
        traces.append(tr)
        nontrivial = any(r['ev'] in ('smerge', 'merge', 'add_end') for r in tr)
        ctx.count([init, [list(map(str, o)) for o in ops]], nontrivial)
        # direct comparison with the states TLC produced (spec -> code replay)
        if expect:
            k = 0
            for rec in tr[1:]:
                if rec['ev'] in ('merge', 'rename_node', 'rename_edge', 'flip'):
                    if k < len(expect) and expect[k] is not None and norm(rec['g']) != norm(expect[k]):
                        # id-exact agreement with the TLC state is what the specification demands, not C16: the same history is
                        # validated by TraceOpGraph below, where the property clauses decide
                        ctx.deviation(f'spec: replayed behaviour: after {rec["ev"]} the real graph differs from the state TLC computed')
                        break
                    k += 1
                elif rec['ev'] in ('raise', 'offlattice'):
                    break
    for tr in traces[3:400:90]:
        ctx.sample([dict((k, v) for k, v in r.items() if k not in ('g', 'h', 'h_after')) for r in tr])
    bad = validate_chunks(ctx, 'TraceOpGraph', 'tg', traces, chunk=ctx.pick(40, 400), constants=TRACE_CONST,
                          relax=lambda tr: [r for r in tr if r.get('ev') not in ('smerge', 'add_union', 'depths')])
    for idx, why in sorted(bad.items())[:40]:
        init, ops, _ = histories[idx]
        clause = why[0][2] if why and len(why[0]) > 2 else 'rejected'
        ctx.violation(f'opgraph:{why[0][1] if why else "?"}:{clause}',
                      f'history {[o[0] for o in ops]} rejected by TraceOpGraph at record {why[0][0] if why else "?"}: {clause}',
                      dict(init=init, ops=[list(o) for o in ops], trace=traces[idx]))
