"""C18 - bipartite matching is maximum, the derived vertex cover is minimum, both terminate.

M: Bipartite.tla explored exhaustively over every bipartite graph of the configured sizes.
S: every graph of the universe (all edge sets, plus edge sequences with duplicates / shuffled order, plus random
   graphs up to 60x60) is run through the real HopcroftKarp / minimum_vertex_cover with wrappers on the two private
   phases; TraceBipartite.tla validates each recorded call against the model and the optimality certificates.
"""
import itertools
import random
import signal

from .. import common, wrap
from ..parallel import validate_chunks


class _Timeout(Exception):
    pass


def _alarm(signum, frame):
    raise _Timeout()


def staircase_graph(p, swap=False):
    """p disjoint paths a_0 - b_0 = a_1 - b_1 = ... = a_d - b_d (d = 1..p) numbered and ordered such that the greedy first phase
    takes the '=' edges: Hopcroft-Karp needs p + 1 phases (shortest augmenting paths of lengths 1, 3, ..., 2p + 1)"""
    edges, offset = [], 0
    for d in range(1, p + 1):
        a = lambda i, o=offset, d=d: o + (i - 1 if i >= 1 else d)
        b = lambda i, o=offset: o + i
        for i in range(1, d + 1):
            edges.append((a(i), b(i - 1)))
            edges.append((a(i), b(i)))
        edges.append((a(0), b(0)))
        offset += d + 1
    if swap:
        edges = [(v, u) for u, v in edges]
    return offset, offset, edges


def record_call(ptn, nu, nv, edge_seq, budget_s=5, reuse=0):
    """Run minimum_vertex_cover on BipartiteGraph(nu, nv, edge_seq) and record the trace.  reuse > 0: before that, one
    HopcroftKarp object on the same graph is invoked reuse + 1 times (a history on the solver object)."""
    bg = ptn.bipartite_graph
    edges = sorted(set((int(u), int(v)) for u, v in edge_seq))
    tr = [dict(ev='graph', nu=nu, nv=nv, edges=[list(e) for e in edges])]
    depth = [0]

    def mk_bfs(orig):
        def bfs(self):
            r = orig(self)
            tr.append(dict(ev='bfs', found=bool(r), k=int(self.dist.get(-1, 0))))
            return r
        return bfs

    def mk_aug(orig):
        def aug(self, u):
            if depth[0] > 0:
                return orig(self, u)
            before_u = list(self.matched_pairs_u)
            before_v = list(self.matched_pairs_v)
            depth[0] += 1
            try:
                r = orig(self, u)
            finally:
                depth[0] -= 1
            if r and u != -1:
                # reconstruct the applied path from the change of the matching
                path = []
                cu = u
                guard = 0
                while cu != -1 and guard <= len(before_u) + 1:
                    v = self.matched_pairs_u[cu]
                    path += [int(cu), int(v)]
                    cu = before_v[v] if 0 <= v < len(before_v) else -1
                    guard += 1
                tr.append(dict(ev='aug', path=path))
            elif self.matched_pairs_u != before_u or self.matched_pairs_v != before_v:
                tr.append(dict(ev='aug', path=[]))     # matching changed although the search reported failure
            return r
        return aug

    def mk_call(orig):
        def call(self):
            if any(r['ev'] == 'matching' for r in tr):
                tr.append(dict(ev='again'))
            m = orig(self)
            tr.append(dict(ev='matching', pairs=[[int(a), int(b)] for a, b in m]))
            return m
        return call

    old = signal.signal(signal.SIGALRM, _alarm)
    signal.setitimer(signal.ITIMER_REAL, budget_s)
    try:
        with wrap.patched((bg.HopcroftKarp, '_HopcroftKarp__connect_unmatched_vertices', mk_bfs),
                          (bg.HopcroftKarp, '_HopcroftKarp__add_augmenting_path', mk_aug),
                          (bg.HopcroftKarp, '__call__', mk_call), trace=tr):
            g = bg.BipartiteGraph(nu, nv, list(edge_seq))
            if reuse:
                hk = bg.HopcroftKarp(g)
                for _ in range(reuse + 1):
                    hk()
            uc, vc = bg.minimum_vertex_cover(g)
        tr.append(dict(ev='cover', uc=[int(x) for x in uc], vc=[int(x) for x in vc]))
    except _Timeout:
        tr.append(dict(ev='raise', exc=f'no termination within {budget_s}s step budget'))
    except BaseException as ex:  # noqa
        tr.append(dict(ev='raise', exc=type(ex).__name__))
    finally:
        signal.setitimer(signal.ITIMER_REAL, 0)
        signal.signal(signal.SIGALRM, old)
    return tr


def all_graphs(nu, nv):
    cells = [(u, v) for u in range(nu) for v in range(nv)]
    for mask in range(1 << len(cells)):
        yield [cells[i] for i in range(len(cells)) if mask >> i & 1]


def run(ctx):
    ptn = common.import_repo()
    rng = random.Random(ctx.seed * 7919 + 18)
    ctx.rule = ('model: every bipartite graph of the listed NU x NV sizes, every interleaving of phases / augmenting '
                'paths; traces: one per call of minimum_vertex_cover on (a) every edge set of the exhaustive sizes, '
                '(b) shuffled edge sequences with duplicates, (c) random graphs of all densities up to 60x60; '
                'non-trivial = graph with at least one edge, distinct = distinct (nu, nv, edge sequence)')
    ctx.assumptions += ['TLC explores the model exhaustively only for the listed small sizes',
                        'wrappers on HopcroftKarp private methods observe, they never alter arguments or results']

    # ---------------------------------------------------------------- M: the model
    inv = ['TypeOK', 'MatchingValid', 'MatchingMaximum', 'CoverMinimum', 'PhaseBound', 'PhaseProgress']
    C = lambda nu, nv, bf, mx: dict(NU=nu, NV=nv, BruteForce='TRUE' if bf else 'FALSE',
                                    MaximalPhases='TRUE' if mx else 'FALSE')
    ctx.model('Bipartite', 'm_3x2_brute_live', constants=C(3, 2, True, False), invariants=inv,
              properties=['Monotone', 'Terminates'], coverage=True)
    ctx.model('Bipartite', 'm_2x3_brute_live', constants=C(2, 3, True, False), invariants=inv,
              properties=['Monotone', 'Terminates'])
    ctx.model('Bipartite', 'm_3x3', constants=C(3, 3, False, False), invariants=inv, properties=['Monotone'])
    if not ctx.quick:
        ctx.model('Bipartite', 'm_3x3_brute_live', constants=C(3, 3, True, True), invariants=inv,
                  properties=['Monotone', 'Terminates'], timeout=1800)
        ctx.model('Bipartite', 'm_4x3', constants=C(4, 3, False, True), invariants=inv, properties=['Monotone'],
                  timeout=1800)
        ctx.model('Bipartite', 'm_3x4', constants=C(3, 4, False, True), invariants=inv, properties=['Monotone'],
                  timeout=1800)
        ctx.model('Bipartite', 'm_4x4', constants=C(4, 4, False, True), invariants=inv, properties=['Monotone'],
                  timeout=3000)

    # ---------------------------------------------------------------- S: traces of the real code
    cases = []
    if ctx.replay is not None:
        cases = [tuple(ctx.replay['replay']['case'])]
    else:
        sizes = [(1, 1), (1, 2), (2, 1), (2, 2), (1, 3), (3, 1), (2, 3), (3, 2), (3, 3), (1, 4), (4, 1), (2, 4), (4, 2)]
        for nu, nv in sizes:
            for es in all_graphs(nu, nv):
                cases.append((nu, nv, es))
        exhaustive_sizes = list(sizes)
        if ctx.quick:
            # 4x4 and 5x5: sampled in the quick tier
            for nu, nv, n in [(4, 4, 1500), (3, 4, 400), (4, 3, 400), (5, 5, 600)]:
                cells = [(u, v) for u in range(nu) for v in range(nv)]
                for _ in range(n):
                    mask = rng.getrandbits(len(cells))
                    cases.append((nu, nv, [cells[i] for i in range(len(cells)) if mask >> i & 1]))
        else:
            for nu, nv in [(3, 4), (4, 3), (4, 4)]:
                exhaustive_sizes.append((nu, nv))
                for es in all_graphs(nu, nv):
                    cases.append((nu, nv, es))
            cells = [(u, v) for u in range(5) for v in range(5)]
            for _ in range(60000):
                mask = rng.getrandbits(25)
                cases.append((5, 5, [cells[i] for i in range(25) if mask >> i & 1]))
        ctx.notes['exhaustive_trace_sizes'] = [list(s) for s in exhaustive_sizes]
        # edge sequences with duplicates and shuffled order (the result of the code depends on adjacency order)
        for _ in range(ctx.pick(400, 6000)):
            nu, nv = rng.randint(1, 5), rng.randint(1, 5)
            cells = [(u, v) for u in range(nu) for v in range(nv)]
            es = [c for c in cells if rng.random() < rng.choice([0.2, 0.5, 0.8])]
            es = es + [rng.choice(es) for _ in range(rng.randint(0, 4))] if es else es
            rng.shuffle(es)
            cases.append((nu, nv, es))
        # adversarial: long augmenting paths (chains), complete graphs, stars
        for n in range(1, ctx.pick(9, 14)):
            chain = [(i, i) for i in range(n)] + [(i + 1, i) for i in range(n - 1)]
            cases.append((n, n, chain))
            cases.append((n, n, list(reversed(chain))))
            cases.append((n, n, [(i, j) for i in range(n) for j in range(n)]))
            cases.append((n, n + 1, [(i, i) for i in range(n)] + [(i, i + 1) for i in range(n)]))
            cases.append((n, 1, [(i, 0) for i in range(n)]))
            cases.append((1, n, [(0, j) for j in range(n)]))
        # random graphs of all densities up to 60x60
        for _ in range(ctx.pick(60, 1500)):
            nu, nv = rng.randint(1, 60), rng.randint(1, 60)
            dens = rng.choice([0.0, 0.01, 0.03, 0.08, 0.2, 0.5, 0.9, 1.0])
            es = [(u, v) for u in range(nu) for v in range(nv) if rng.random() < dens]
            rng.shuffle(es)
            cases.append((nu, nv, es))

        # staircases: as many Hopcroft-Karp phases as the graph allows (p + 1 phases on p(p+3)/2 vertices per side)
        for p_ in range(1, ctx.pick(8, 10)):
            for swap in (False, True):
                cases.append(staircase_graph(p_, swap))
        # histories on the solver object: the same HopcroftKarp instance is invoked several times
        for k_, (nu, nv, es) in enumerate(list(cases)):
            if k_ % ctx.pick(9, 7) == 3 and len(es) >= 1 and nu * nv <= 400:
                cases.append((nu, nv, es, 1 + k_ % 2))

    traces = []
    missing_hooks = set()
    for case in cases:
        nu, nv, es = case[:3]
        tr = record_call(ptn, nu, nv, es, reuse=(case[3] if len(case) > 3 else 0))
        traces.append(tr)
        ctx.count([nu, nv, es], nontrivial=len(es) > 0)
    for tr in traces[5:400:80]:
        ctx.sample(tr)
    n_hook = sum(1 for tr in traces if any(r['ev'] in ('bfs', 'aug') for r in tr))
    ctx.notes['traces_with_phase_hooks'] = n_hook
    ctx.log(f'recorded {len(traces)} calls ({n_hook} with bfs/aug hook events)')

    bad = validate_chunks(ctx, 'TraceBipartite', 'tb', traces, chunk=ctx.pick(4000, 6000),
                          invariants=['TraceMatchingValid'], relax=lambda tr: [r for r in tr if r.get('ev') not in ('bfs', 'aug')])
    for idx, why in sorted(bad.items())[:50]:
        nu, nv, es = cases[idx][:3]
        key = f'bipartite:{why[0][2] if why and len(why[0]) > 2 else "rejected"}'
        ctx.violation(key, f'minimum_vertex_cover(BipartiteGraph({nu}, {nv}, {es[:40]}...)) rejected by '
                           f'TraceBipartite: {why}', dict(case=[nu, nv, [list(e) for e in es]] + list(cases[idx][3:]), trace=traces[idx]))
