"""C01 - orthonormalization never changes the represented state or operator.

M: Canon.tla: sweep order, forms, bond charges bounded by the block-wise closed form, dummy branch <=> zero state, sign
   flip, boundary charges, histories of calls on one object (Again; Idempotent: a repeated QR sweep in the same direction
   finds the charges at their fixed point); all layouts L <= 3, d <= 2, D <= 2, charges {0,1}, both modes, MPS and MPO.
S: every local factorization of a real orthonormalize call is recorded (site, direction, new bond charges, isometry,
   sparsity, two-site product) and validated by TraceCanon.tla against the sweep.
E: integer / Gaussian-integer states: nrm^2 = ||v||^2 and nrm * v_new = v_old evaluated exactly by TLC.
N: generic real/complex entries: norm, state preservation, unit norm, isometries (1e-10).
"""
import numpy as np

from .. import common, canon
from ..parallel import validate_chunks

INV = ['FormsOK', 'SignOK', 'DimsOK', 'NoGrowth', 'OrderOK', 'BoundaryOK', 'ScaleBound', 'Idempotent']


def canon_models(ctx, only_ortho_note=''):
    cs = [('mps_L3', dict(L=3, DMAX=2, Class='"mps"', TolNum=1, TolDen=8, MaxCalls=2), dict(QD='<<0,1>>', QB='{0,1}')),
          ('mpo_L2', dict(L=2, DMAX=2, Class='"mpo"', TolNum=1, TolDen=5), dict(QD='<<0,1>>', QB='{0,1}')),
          ('mps_L1', dict(L=1, DMAX=1, Class='"mps"', TolNum=0, TolDen=1), dict(QD='<<0>>', QB='{0,1}')),
          ('mps_L2_d1', dict(L=2, DMAX=3, Class='"mps"', TolNum=1, TolDen=4), dict(QD='<<1>>', QB='{0,1,2}'))]
    if not ctx.quick:
        cs += [('mps_L4', dict(L=4, DMAX=2, Class='"mps"', TolNum=1, TolDen=16), dict(QD='<<0,1>>', QB='{0,1}')),
               ('mpo_L3', dict(L=3, DMAX=2, Class='"mpo"', TolNum=1, TolDen=5), dict(QD='<<0,1>>', QB='{0,1}')),
               ('mps_L3_D3', dict(L=3, DMAX=3, Class='"mps"', TolNum=1, TolDen=8), dict(QD='<<-1,0,1>>', QB='{-1,0,1}'))]
    for tag, c, d in cs:
        c.setdefault('MaxCalls', 2 if c['L'] <= 2 else 1)
        ctx.model('Canon', 'm_' + tag, constants=c, defs=d, invariants=INV, coverage=(tag == 'mps_L3'), timeout=3000)


def gen_case(rng, quick):
    cls = 'mps' if rng.random() < 0.6 else 'mpo'
    L = int(rng.choice([1, 1, 2, 2, 3, 4, 5] if cls == 'mps' else [1, 2, 2, 3, 4]))
    d = int(rng.choice([1, 2, 2, 3, 4] if cls == 'mps' else [1, 2, 2, 3]))
    entries = str(rng.choice(['complex', 'complex', 'real', 'int', 'gauss', 'ones', 'zeros']))
    mode = str(rng.choice(['left', 'right']))
    # a history: further calls on the same object, possibly after the user has overwritten site tensors
    hist = []
    if rng.random() < 0.3:
        for _ in range(int(rng.integers(1, 3))):
            hist.append([bool(rng.random() < 0.7), mode if rng.random() < 0.6 else str(rng.choice(['left', 'right']))])
    return dict(cls=cls, L=L, d=d, entries=entries, mode=mode, seed=int(rng.integers(1 << 30)), hist=hist)


def build(ptn, c):
    rng = np.random.default_rng(c['seed'])
    qd, qD = canon.gen_charges(rng, c['L'], c['d'], c['cls'])
    return canon.make_object(ptn, rng, c['cls'], qd, qD, c['entries'])


def run(ctx):
    ptn = common.import_repo()
    rng = np.random.default_rng(ctx.seed * 3 + 1)
    ctx.rule = ('model: all bond-charge layouts of the listed sizes x modes; traces: one per orthonormalize call on a random '
                'sector-consistent MPS/MPO (styles: U(1), all-zero, sorted, repeated, disjoint sectors, encoded pairs; entries '
                'complex / real / integer / Gaussian integer / constant fill / zero); non-trivial = non-zero state with a bond '
                'of dimension > 1; distinct = distinct generator seed and parameters')
    ctx.assumptions += ['mode-N bounds 1e-10 (relative to max(1, ||v||))',
                        'local steps observed by wrapping mps.local_orthonormalize_* / mpo.local_orthonormalize_*']
    canon_models(ctx)
    cases = [ctx.replay['replay']['case']] if ctx.replay is not None else [gen_case(rng, ctx.quick) for _ in range(ctx.pick(1500, 15000))]
    traces = []
    for c in cases:
        try:
            obj = build(ptn, c)
            tr = canon.record_canon(ptn, obj, c['cls'], 'ortho', c['mode'])
            hrng = np.random.default_rng(c['seed'] + 1)
            for do_poke, mode2 in c.get('hist', []):
                if tr[-1].get('ev') != 'end':
                    break
                if do_poke:
                    canon.poke(obj, hrng, tr)
                tr += canon.record_canon(ptn, obj, c['cls'], 'ortho', mode2)
        except BaseException as ex:  # noqa
            tr = [dict(ev='raise', exc=f'generator: {type(ex).__name__}: {str(ex)[:80]}')]
        traces.append(tr)
        end = tr[-1]
        ctx.count(c, nontrivial=bool(end.get('ev') == 'end' and not end.get('is_zero') and max(end.get('dims', [1])) > 1))
    ctx.notes['exact_instances'] = sum(1 for tr in traces if tr[-1].get('exact'))
    ctx.notes['zero_states'] = sum(1 for tr in traces if tr[-1].get('is_zero'))
    ctx.notes['local_steps'] = sum(1 for tr in traces for r in tr if r['ev'] == 'step')
    for tr in traces[2:len(traces):max(1, len(traces) // 5)]:
        ctx.sample([{k: v for k, v in r.items() if k not in ('v_old', 'v_new_scaled')} for r in tr][:4])
    bad = validate_chunks(ctx, 'TraceCanon', 'tcn', traces, chunk=ctx.pick(100, 1000), relax=canon.relax)
    for idx, why in sorted(bad.items())[:40]:
        c = cases[idx]
        clause = why[0][2] if why and len(why[0]) > 2 else 'rejected'
        ctx.violation(f'orthonormalize:{c["cls"]}:{clause[:70]}', f'{c}: record {why[0][0] if why else "?"}: {clause}',
                      dict(case=c, trace=[{k: v for k, v in r.items() if k not in ('v_old', 'v_new_scaled')} for r in traces[idx]]))
