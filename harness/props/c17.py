"""C17 - operator trees and state automata unfold to graphs with the same meaning.

M: Unfold.tla - functional transcriptions of from_optrees (subtree insertion, identity padding, simplify) and
   from_automaton (reachability pruning, unrolling) checked against the symbolic meanings for all trees / automata of a
   bounded universe.
S/E: real trees and automata (self loops, parallel edges, dead states, site-dependent active/opics callables) are
   unfolded by the real code; TraceUnfold.tla recomputes the meaning from the INPUT PROGRAM and compares it with the
   free-algebra polynomial of the returned graph, checks consistency / length / widths, decides whether an exception
   is legitimate, and checks as_matrix() of chains, trees and graphs (both directions) entry by entry.
"""
import random

import numpy as np

from .. import common
from ..observe import graph_json, snap_array_int, OffLattice
from ..parallel import validate_chunks


# ------------------------------------------------------------------------------------------------- generators
def rand_tree(rng, room, oids, coefs, qs, p_leaf=0.3, maxb=3, depth=0):
    """returns JSON tree [q, ch]; height <= room"""
    q = rng.choice(qs) if depth > 0 else 0
    if room == 0 or (depth > 0 and rng.random() < p_leaf):
        return dict(q=q if room > 0 else 0, ch=[])
    ch = []
    for _ in range(rng.randint(1, maxb)):
        ch.append(dict(oid=rng.choice(oids), c=rng.choice(coefs),
                       node=rand_tree(rng, room - 1, oids, coefs, qs, p_leaf, maxb, depth + 1)))
    return dict(q=q, ch=ch)


def build_tree(ptn, j):
    return ptn.OpTreeNode([ptn.OpTreeEdge(e['oid'], float(e['c']), build_tree(ptn, e['node'])) for e in j['ch']], j['q'])


def tree_height(j):
    return 0 if not j['ch'] else 1 + max(tree_height(e['node']) for e in j['ch'])


def rand_autop(rng, L, maxe=8):
    n = rng.randint(2, 5)
    nodes = [dict(id=i, q=0) for i in range(n)]
    oids = [0, 1, 2]
    pats = ['all', 'all', 'even', 'odd', 'first', 'last', 'notlast', 'never', 'late2', 'late3', 'mid', 'from1']
    edges = []
    for _ in range(rng.randint(1, maxe)):
        src, dst = rng.randrange(n), rng.randrange(n)
        pat = rng.choice(pats)
        act = [dict(all=True, even=i % 2 == 0, odd=i % 2 == 1, first=i == 0, last=i == L - 1, notlast=i < L - 1,
                    never=False, late2=i >= 2, late3=i >= 3, mid=1 <= i < L - 1, from1=i >= 1)[pat] for i in range(L)]
        cpat = rng.choice(['const', 'site', 'alt'])
        base = [[o, rng.choice([-2, -1, 1, 2, 3])] for o in sorted(rng.sample(oids, rng.choice([1, 1, 2])))]
        if rng.random() < 0.2:
            # the same operator named twice in one weighted sum (a uniform plus a staggered coefficient): coefficients add
            o, c0 = base[0]
            base.append([o, rng.choice([c for c in (-3, -1, 1, 2, 4) if c != c0])])
            rng.shuffle(base)
        ops = [[[o, c if cpat == 'const' else c * (i + 1) if cpat == 'site' else c * (-1) ** i] for o, c in base]
               for i in range(L)]
        edges.append(dict(src=src, dst=dst, act=act, ops=ops, static=(cpat == 'const' and pat == 'all')))
    # make a path likely: identity loops on the terminals and one connecting edge
    if rng.random() < 0.8:
        edges.append(dict(src=0, dst=0, act=[True] * L, ops=[[[0, 1]]] * L, static=True))
        edges.append(dict(src=1, dst=1, act=[True] * L, ops=[[[0, 1]]] * L, static=True))
        edges.append(dict(src=0, dst=1, act=[True] * L, ops=[[[rng.choice([1, 2]), rng.choice([1, 2, -1])]]] * L, static=True))
    return dict(nodes=nodes, edges=edges, term=[0, 1])


def late_autop(rng, L):
    """Ising-like automaton whose two-site coupling is switched on only from some later bond on: the set of reachable states is
    stationary for several layers before the intermediate state becomes reachable"""
    k0 = rng.randrange(1, max(2, L - 1))
    k1 = rng.choice([L - 1, L - 1, max(k0, L - 2)])
    on = [k0 <= i <= k1 for i in range(L)]
    on_next = [k0 < i <= k1 + 1 for i in range(L)]
    one = [[[0, 1]]] * L
    c, h = rng.choice([1, 2, -1]), rng.choice([1, 3, -2])
    edges = [dict(src=0, dst=0, act=[True] * L, ops=one, static=True),
             dict(src=1, dst=1, act=[True] * L, ops=one, static=True),
             dict(src=0, dst=1, act=[True] * L, ops=[[[1, h]]] * L, static=True),
             dict(src=0, dst=2, act=on, ops=[[[2, c]]] * L, static=False),
             dict(src=2, dst=1, act=on_next, ops=[[[2, 1]]] * L, static=False)]
    if rng.random() < 0.4:       # a longer-range tail through a second intermediate state
        edges.append(dict(src=2, dst=3, act=on_next, ops=[[[0, 1]]] * L, static=False))
        edges.append(dict(src=3, dst=1, act=[i >= 2 for i in range(L)], ops=[[[2, 2]]] * L, static=False))
    return dict(nodes=[dict(id=i, q=0) for i in range(4)], edges=edges, term=[0, 1])


def build_autop(ptn, a):
    nodes = [ptn.AutOpNode(n['id'], [], [], n['q']) for n in a['nodes']]
    aut = ptn.AutOp(nodes, [], list(a['term']))
    for k, e in enumerate(a['edges']):
        if e.get('static'):
            opics = [(o, float(c)) for o, c in e['ops'][0]]
            active = True
        else:
            opics = (lambda i, e=e: [(o, float(c)) for o, c in e['ops'][i]])
            active = (lambda i, e=e: bool(e['act'][i]))
        aut.add_connect_edge(ptn.AutOpEdge(k, [e['src'], e['dst']], opics, active))
    return aut


def rand_opmap(rng, oids, d):
    return {int(o): (np.eye(d, dtype=int).tolist() if o in (0, 9)
                     else [[rng.choice([-2, -1, 0, 1, 2]) for _ in range(d)] for _ in range(d)]) for o in oids}


def opmap_json(opmap):
    return [dict(oid=int(k), m=v) for k, v in sorted(opmap.items())]


def np_opmap(opmap):
    return {k: np.array(v, dtype=float) for k, v in opmap.items()}


def _cons(g):
    try:
        return bool(g.is_consistent())
    except Exception:
        return False


def record_trees(ptn, rng, L, idoid, trees, dense):
    tr = [dict(ev='trees', L=L, idoid=idoid, trees=trees)]
    try:
        objs = [ptn.OpTree(build_tree(ptn, t['root']), t['istart']) for t in trees]
        g = ptn.OpGraph.from_optrees(objs, L, idoid)
        tr.append(dict(ev='graph', g=graph_json(g), cons=_cons(g), length=int(g.length)))
        if dense and L <= 3:
            oids = {idoid} | {e['ops'][k][0] for e in tr[-1]['g']['edges'] for k in range(len(e['ops']))}
            d = 2
            om = rand_opmap(rng, oids, d)
            for direction in (1, 0):
                m = g.as_matrix(np_opmap(om), direction)
                tr.append(dict(ev='dense', kind='graph', d=d, n=L, opmap=opmap_json(om),
                               m=snap_array_int(m, what='OpGraph.as_matrix')))
    except OffLattice as ex:
        tr.append(dict(ev='offlattice', exc=str(ex)))
    except BaseException as ex:  # noqa
        tr.append(dict(ev='raise', exc=type(ex).__name__))
    return tr


def record_autop(ptn, rng, L, a, dense):
    tr = []
    try:
        aut = build_autop(ptn, a)
        # AutOp.is_consistent on the real object, and on a copy with one dangling reference
        import copy
        broken = copy.deepcopy(aut)
        if broken.edges:
            k = sorted(broken.edges)[0]
            broken.nodes[broken.edges[k].nids[0]].eids[1].remove(k)
            broken_detected = not broken.is_consistent()
        else:
            broken_detected = True
        tr.append(dict(ev='autop', L=L, term=a['term'], aut_consistent=bool(aut.is_consistent()), broken_detected=bool(broken_detected),
                       nodes=[dict(id=int(n.nid), q=int(n.qnum), ein=[int(x) for x in n.eids[0]], eout=[int(x) for x in n.eids[1]])
                              for n in aut.nodes.values()],
                       edges=[dict(eid=k, src=e['src'], dst=e['dst'], act=e['act'], ops=e['ops']) for k, e in enumerate(a['edges'])]))
        g = ptn.OpGraph.from_automaton(aut, L)
        tr.append(dict(ev='graph', g=graph_json(g), cons=_cons(g), length=int(g.length)))
        if dense and L <= 3:
            om = rand_opmap(rng, {0, 1, 2}, 2)
            m = g.as_matrix(np_opmap(om), rng.choice([0, 1]))
            tr.append(dict(ev='dense', kind='graph', d=2, n=L, opmap=opmap_json(om),
                           m=snap_array_int(m, what='OpGraph.as_matrix')))
    except OffLattice as ex:
        tr.append(dict(ev='offlattice', exc=str(ex)))
    except BaseException as ex:  # noqa
        tr.append(dict(ev='raise', exc=type(ex).__name__))
    return tr


def record_dense_chain(ptn, rng):
    n = rng.randint(1, 3)
    d = rng.choice([2, 2, 3]) if n <= 2 else 2
    oids = [rng.choice([0, 1, 2, 5]) for _ in range(n)]
    coeff = rng.choice([-3, -2, -1, 1, 2, 3])
    om = rand_opmap(rng, set(oids), d)
    tr = []
    try:
        m = ptn.OpChain(oids, [0] * (n + 1), float(coeff), rng.randint(0, 2)).as_matrix(np_opmap(om))
        tr.append(dict(ev='dense', kind='chain', d=d, n=n, oids=oids, coeff=coeff, opmap=opmap_json(om),
                       m=snap_array_int(m, what='OpChain.as_matrix')))
    except BaseException as ex:  # noqa
        tr.append(dict(ev='raise', exc=type(ex).__name__))
    return tr


def record_dense_tree(ptn, rng):
    root = rand_tree(rng, rng.randint(1, 3), [1, 2, 5], [-2, -1, 1, 2], [0], p_leaf=0.35, maxb=2)
    h = tree_height(root)
    if h == 0:
        root = dict(q=0, ch=[dict(oid=1, c=2, node=dict(q=0, ch=[]))])
        h = 1
    d = 2
    om = rand_opmap(rng, {0, 1, 2, 5}, d)
    tr = []
    try:
        m = ptn.OpTree(build_tree(ptn, root), 0).as_matrix(np_opmap(om))
        tr.append(dict(ev='dense', kind='tree', d=d, n=h, root=root, idoid=0, opmap=opmap_json(om),
                       m=snap_array_int(m, what='OpTree.as_matrix')))
    except BaseException as ex:  # noqa
        tr.append(dict(ev='raise', exc=type(ex).__name__))
    return tr


MODEL_INV = ['MeaningOK', 'ShapeOK', 'NoPathOK', 'NoDeadStates', 'TreesConnected']


def run(ctx):
    ptn = common.import_repo()
    rng = random.Random(ctx.seed * 15485863 + 17)
    ctx.rule = ('model: all trees up to the configured height/branching and all automata with <= MaxAutEdges edges over the '
                'configured activity/coefficient patterns; traces: one per tree list / automaton / dense-meaning case; '
                'non-trivial = program with >= 2 paths; distinct = distinct input program')
    ctx.assumptions += ['integer coefficients and operator maps (exact in TLC)',
                        'callable active/opics of automaton edges are tabulated per site by the driver']
    base = dict(L=2, OIDS='{0,1}', IdOid=0, QS='{0}', MaxTrees=1, TreeHeight=2, MaxBranch=2, AutN=3, MaxAutEdges=3,
                ACTP='{"all","even"}', COEFP='{"one","site"}')
    ctx.model('Unfold', 'm_trees_L2', constants=dict(base, Mode='"trees"'), defs=dict(COEFS=ctx.pick('{2}', '{1,2}')),
              invariants=MODEL_INV, coverage=True, timeout=1800)
    ctx.model('Unfold', 'm_trees_L3h1', constants=dict(base, Mode='"trees"', L=3, TreeHeight=1, MaxTrees=1, QS='{0,1}'),
              defs=dict(COEFS='{-1,1,2}'), invariants=MODEL_INV, timeout=900)
    ctx.model('Unfold', 'm_autop_L3', constants=dict(base, Mode='"autop"', L=3, MaxAutEdges=ctx.pick(2, 3)),
              defs=dict(COEFS='{1,2}'), invariants=MODEL_INV, timeout=900, coverage=True)
    if not ctx.quick:
        ctx.model('Unfold', 'm_trees_L3', constants=dict(base, Mode='"trees"', L=3, TreeHeight=1, MaxTrees=2, QS='{0,1}'),
                  defs=dict(COEFS='{1,2}'), invariants=MODEL_INV, timeout=3000)
        ctx.model('Unfold', 'm_autop_L4', constants=dict(base, Mode='"autop"', L=4, MaxAutEdges=3,
                                                         ACTP='{"all","even","first","notlast"}', COEFP='{"one","site","neg"}'),
                  defs=dict(COEFS='{1,2}'), invariants=MODEL_INV, timeout=3000)

    cases = []
    if ctx.replay is not None:
        cases = [ctx.replay['replay']['case']]
    else:
        for _ in range(ctx.pick(220, 5000)):
            L = rng.choice([1, 2, 3, 3, 4, 5])
            idoid = rng.choice([0, 0, 9])
            trees = []
            for _ in range(rng.randint(1, 3)):
                istart = rng.randint(0, L - 1)
                room = L - istart
                deep = rng.random() < 0.08
                root = rand_tree(rng, room + (1 if deep else 0), [idoid, 1, 2], [-2, -1, 1, 2, 3],
                                 [0, 0, 1] if rng.random() < 0.5 else [0])
                if rng.random() < 0.08:
                    root['q'] = 1
                trees.append(dict(root=root, istart=istart))
            if rng.random() < 0.3 and trees:
                trees.append(dict(root=trees[0]['root'], istart=trees[0]['istart']))     # shared operators / repeated tree
            cases.append(dict(kind='trees', L=L, idoid=idoid, trees=trees))
        for _ in range(ctx.pick(220, 3000)):
            L = rng.choice([1, 2, 3, 3, 4, 4, 5] if ctx.quick else [1, 2, 3, 3, 4, 4, 5, 6])
            cases.append(dict(kind='autop', L=L, a=rand_autop(rng, L, ctx.pick(5, 8) if L <= 4 else (4 if L == 5 else 3))))
        for _ in range(ctx.pick(24, 400)):
            L = rng.choice([4, 5, 5, 6] if ctx.quick else [4, 5, 5, 6, 6])
            cases.append(dict(kind='autop', L=L, a=late_autop(rng, L)))
        for _ in range(ctx.pick(60, 1000)):
            cases.append(dict(kind='dense_chain', seed=rng.randrange(1 << 30)))
            cases.append(dict(kind='dense_tree', seed=rng.randrange(1 << 30)))

    traces = []
    for c in cases:
        r2 = random.Random(c.get('seed', ctx.seed))
        if c['kind'] == 'trees':
            tr = record_trees(ptn, r2, c['L'], c['idoid'], c['trees'], dense=True)
        elif c['kind'] == 'autop':
            tr = record_autop(ptn, r2, c['L'], c['a'], dense=True)
        elif c['kind'] == 'dense_chain':
            tr = record_dense_chain(ptn, r2)
        else:
            tr = record_dense_tree(ptn, r2)
        traces.append(tr)
        ctx.count(c, nontrivial=(c['kind'] not in ('trees',) or len(c['trees']) > 1 or len(c['trees'][0]['root']['ch']) > 1))
    ctx.notes['raise_events'] = sum(1 for tr in traces if any(r['ev'] == 'raise' for r in tr))
    for tr in traces[1:2000:330]:
        ctx.sample([{k: v for k, v in r.items() if k not in ('g', 'm', 'opmap')} for r in tr][:3])
    bad = validate_chunks(ctx, 'TraceUnfold', 'tu', traces, chunk=ctx.pick(50, 150), timeout=3600)
    for idx, why in sorted(bad.items())[:40]:
        c = cases[idx]
        clause = why[0][2] if why and len(why[0]) > 2 else 'rejected'
        ctx.violation(f'unfold:{c["kind"]}:{why[0][1] if why else "?"}:{clause[:60]}',
                      f'{c["kind"]} case rejected by TraceUnfold at record {why[0][0] if why else "?"}: {clause}',
                      dict(case=c, trace=traces[idx]))
