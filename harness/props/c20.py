"""C20 - compiled Hamiltonian MPOs are as compact as the operator allows.

M: OpChains.tla WidthBound / WidthBoundDone with minimum covers (negative control: any cover violates it);
   OpGraph.tla MergeShrinks (no rewrite of simplify widens a layer).
S: random chain lists compiled by the real code, TraceOpChains.tla: the cover used at every site is a MINIMUM vertex
   cover, no cut is wider than the number of chains, MPO bond dimensions are the layer widths.
E: operator Schmidt rank: for each model, size and cut the dense operator (three independent random integer parameter
   draws, scaled / similarity-transformed to integers) is reshaped across the cut and TLC computes its rank over GF(p)
   by Gaussian elimination (cross-checked against an exact rational rank); clause bond_dim = generic rank.
"""
import random

import numpy as np

from .. import common, models, tlc
from ..parallel import validate_chunks
from . import c05, c16

PRIMES = [32003, 46337]


def dense_int(H, scale, what):
    Hs = np.asarray(H) * scale
    if np.iscomplexobj(Hs) and np.abs(Hs.imag).max(initial=0) > 1e-9:
        # complex coefficients: rank of [Re | Im] blocks is not the complex rank; use real embedding [[Re,-Im],[Im,Re]] / 2
        raise ValueError('complex dense operator not supported here')
    R = np.rint(Hs.real)
    if np.abs(Hs.real - R).max(initial=0) > 1e-8 * max(1.0, np.abs(Hs).max(initial=0)):
        raise ValueError(f'{what}: dense operator is not integer after scaling by {scale}')
    return R.astype(np.int64)


def model_cases(ctx, rng):
    q = ctx.quick
    cases = []
    for L in ([2, 3, 4] if q else [2, 3, 4, 5, 6]):
        cases += [('ising', None, L), ('xxz', None, L)]
    for L in ([2, 3] if q else [2, 3, 4]):
        cases += [('xxz1', None, L), ('bose', 2, L), ('bose', 3, L)]
    for L in ([2] if q else [2, 3]):
        cases += [('fermi_hubbard', None, L), ('bose', 4, L)]
    for L in ([2, 3, 4] if q else [2, 3, 4, 5, 6]):
        cases += [('linferm_c', None, L), ('linferm_a', None, L)]
    for L in ([2, 3, 4] if q else [2, 3, 4, 5, 6]):
        cases += [('mol', None, L)]
    for L in ([2] if q else [2, 3]):
        cases += [('spinmol', None, L)]
    return cases


def build_case(ptn, rng, model, d, L):
    def par(n):
        return [rng.choice([-1, 1]) * rng.randint(1, 9) for _ in range(n)]
    if model in models.MODELS:
        p = par(3)
        mpo = models.build(ptn, model, L, p, d)
        dd = models.local_dim(model, d)
        H = models.similarity_dense(mpo.as_matrix(), model, dd, L)
        return mpo, dense_int(H, models.MODELS[model]['scale'], model), dd, p
    if model.startswith('linferm'):
        p = par(L)
        mpo = ptn.linear_fermionic_mpo([float(x) for x in p], 'c' if model.endswith('_c') else 'a')
        return mpo, dense_int(mpo.as_matrix(), 1, model), 2, p
    if model == 'mol':
        t = np.array([[rng.randint(-5, 5) or 1 for _ in range(L)] for _ in range(L)], dtype=float)
        v = np.array([rng.randint(-4, 4) or 1 for _ in range(L**4)], dtype=float).reshape((L,) * 4)
        mpo = ptn.molecular_hamiltonian_mpo(t, v, optimize=rng.choice([True, np.True_, 1]))        # any truthy flag
        return mpo, dense_int(mpo.as_matrix(), 2, model), 2, ['random integer tkin, vint']
    if model == 'spinmol':
        t = np.array([[rng.randint(-5, 5) or 1 for _ in range(L)] for _ in range(L)], dtype=float)
        v = np.array([rng.randint(-4, 4) or 1 for _ in range(L**4)], dtype=float).reshape((L,) * 4)
        mpo = ptn.spin_molecular_hamiltonian_mpo(t, v, optimize=rng.choice([True, np.True_, 1]))
        return mpo, dense_int(mpo.as_matrix(), 2, model), 4, ['random integer tkin, vint']
    raise ValueError(model)


def record_rank_trace(ptn, rng, model, d, L, ndraws=3, maxcells=60000):
    tr = []
    try:
        draws = [build_case(ptn, rng, model, d, L) for _ in range(ndraws)]
        bonds = [list(m.bond_dims) for m, _, _, _ in draws]
        dd = draws[0][2]
        for a in range(1, L):
            mats, rq = [], []
            for mpo, Hi, _, _ in draws:
                M = models.prune(models.cut_matrix(Hi, dd, L, a))
                if M.shape[0] > M.shape[1]:
                    M = models.prune(M.T)
                if M.size > maxcells:
                    mats = None
                    break
                mats.append(M.tolist())
                rq.append(models.rank_exact(M))
            if mats is None:
                continue
            tr.append(dict(ev='cut', model=model, L=L, cut=a, bond=int(max(b[a] for b in bonds)),
                           bond_all_draws=[int(b[a]) for b in bonds], mats=mats, rankq=rq, primes=PRIMES,
                           params=[str(x[3]) for x in draws]))
    except BaseException as ex:  # noqa
        tr.append(dict(ev='raise', exc=f'{type(ex).__name__}: {str(ex)[:100]}'))
    return tr


def run(ctx):
    ptn = common.import_repo()
    target = None
    if ctx.replay is not None:
        rp = ctx.replay['replay']
        ctx.seed, ctx.tier = int(rp.get('seed', ctx.seed)), str(rp.get('tier', ctx.tier))
        target = (rp.get('kind'), rp.get('index'))
    rng = random.Random(ctx.seed * 32452843 + 20)
    ctx.rule = ('model: OpChains.tla width bound over all chain multisets; traces: (a) one per random chain list compiled by the '
                'real code, (b) one per (model, L) with one record per cut carrying the dense operator reshaped across the '
                'cut for 3 random integer parameter draws; non-trivial = cut with rank >= 2; distinct = distinct (model, L, cut)')
    ctx.assumptions += ['generic rank = maximum over three random integer parameter draws from [-9,9] without 0',
                        'rank over GF(32003) / GF(46337) equals the rational rank (cross-checked per matrix against an '
                        'exact Bareiss elimination in the harness; a disagreement is reported as machinery failure)',
                        'dense operator taken from MPO.as_matrix() (its correctness is C03/C06)']
    # ------------------------------------------------------------------ M
    ctx.model('OpChains', 'm_width_L2', constants=c05.model_consts(2, 2), defs=dict(COEFS='{-1,1,2}'),
              invariants=['WidthBound', 'WidthBoundDone', 'NeverRaised'], timeout=900)
    ctx.model('OpChains', 'm_width_anycover', constants=c05.model_consts(2, 1, anycover=True), defs=dict(COEFS='{1}'),
              invariants=['WidthBound'], expect_violation='WidthBound')
    ctx.model('OpGraph', 'm_merge_shrinks', constants=dict(L=2, OIDS='{0,1}', QS='{0,1}', MaxTerms=3, MaxTerms2=0, MaxOps=0,
                                                           RELABELS='{}'),
              defs=dict(COEFS='{1,2}', COEFS2='{1}'), invariants=['ConsistentOK'], properties=['MergeShrinks'], timeout=900)

    # ------------------------------------------------------------------ S: chain lists
    cl_cases = [c05.random_phys_case(rng, rng.choice([2, 3, 4, 5, 6]), zeros=0.7) for _ in range(ctx.pick(240, 3000))]
    cl_traces = [c05.record_compile(ptn, c['L'], c['idoid'], c['chains'], c['phys']) for c in cl_cases]
    for c in cl_cases:
        ctx.count(c, nontrivial=len(c['chains']) >= 2)
    off1 = 0
    if target is not None:
        if target[0] == 'chains' and target[1] is not None and 0 <= int(target[1]) < len(cl_traces):
            off1 = int(target[1])
            cl_cases, cl_traces = [cl_cases[off1]], [cl_traces[off1]]
        elif target[0] == 'rank':
            cl_cases, cl_traces = [], []
    bad = validate_chunks(ctx, 'TraceOpChains', 'tcw', cl_traces, chunk=ctx.pick(40, 300),
                          relax=lambda tr: [r for r in tr if r.get('ev') not in ('site', 'partition', 'cover')])
    for idx, why in sorted(bad.items())[:20]:
        clause = why[0][2] if why and len(why[0]) > 2 else 'rejected'
        ctx.violation(f'compact:chains:{why[0][1] if why else "?"}:{clause[:60]}',
                      f'chain list rejected by TraceOpChains at record {why[0][0] if why else "?"}: {clause}',
                      dict(kind='chains', seed=ctx.seed, tier=ctx.tier, index=idx + off1, case=cl_cases[idx]))

    # ------------------------------------------------------------------ E: operator Schmidt rank
    mcases = model_cases(ctx, rng)
    rtraces, keep = [], []
    for model, d, L in mcases:
        tr = record_rank_trace(ptn, rng, model, d, L, maxcells=ctx.pick(40000, 400000))
        if tr:
            rtraces.append(tr)
            keep.append((model, d, L))
            for r in tr:
                ctx.count([model, d, L, r.get('cut')], nontrivial=r.get('ev') == 'cut' and max(r['rankq']) >= 2)
    ctx.sample([dict(model=r['model'], L=r['L'], cut=r['cut'], bond=r['bond'], rankq=r['rankq'], shape=[len(r['mats'][0]), len(r['mats'][0][0]) if r['mats'][0] else 0])
                for tr in rtraces[:4] for r in tr if r['ev'] == 'cut'][:8])
    ctx.notes['rank_cuts_checked'] = sum(1 for tr in rtraces for r in tr if r['ev'] == 'cut')
    off2 = 0
    if target is not None:
        if target[0] == 'rank' and target[1] is not None and 0 <= int(target[1]) < len(rtraces):
            off2 = int(target[1])
            rtraces, keep = [rtraces[off2]], [keep[off2]]
        elif target[0] == 'chains':
            rtraces, keep = [], []
    bad = validate_chunks(ctx, 'TraceCompact', 'tr', rtraces, chunk=2)
    for idx, why in sorted(bad.items()):
        clause = why[0][2] if why and len(why[0]) > 2 else 'rejected'
        if clause.startswith('ORACLE'):
            raise tlc.TlcMachineryError(f'rank oracle disagreement for {keep[idx]}: {why}')
        ctx.violation(f'compact:rank:{keep[idx][0]}:{clause[:50]}',
                      f'{keep[idx]}: record {why[0][0] if why else "?"}: {clause}', dict(kind='rank', seed=ctx.seed, tier=ctx.tier, index=idx + off2, case=list(keep[idx])))
