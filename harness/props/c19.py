"""C19 - operands are never modified and results share no state with them.

M: Heap.tla: ownership of buffers under pure / fresh / in-place calls and arbitrary later pokes: NoSharing and Frozen over
   all call sequences on a pool of 3 objects / 5 buffers; negative control AliasBug (a dropped copy).
S: random histories (the same generator as C02, plus operator graphs): before and after every call every live object is
   digested (SHA-256 over all tensors and quantum-number arrays / the graph structure) and pairwise memory sharing is
   computed (np.shares_memory over all buffers, identity of containers, identity of node / edge records); after every fresh
   result each of its buffers is perturbed in place and zero_qnumbers() is called on it, re-digesting all other objects;
   TraceHeap.tla validates every record against the Call / Poke contracts.
"""
import numpy as np

from .. import common, histgen, apalache
from ..parallel import validate_chunks, pmap


def _hist(arg):
    seed, quick = arg
    return histgen.run_history(common.import_repo(), seed, quick)[1]


def run(ctx):
    ptn = common.import_repo()
    rng = np.random.default_rng(ctx.seed * 59 + 19)
    ctx.rule = ('model: all call / poke sequences on 3 objects and 5 buffers; traces: one per random history; non-trivial = history with a '
                'fresh result built from at least one operand; distinct = distinct seed')
    ctx.assumptions += ['arrays returned by dense conversion are pure results (the property does not forbid views) and are not part of '
                        'NoSharing', 'the catalogue of operation kinds (pure / fresh / in-place target) is the one of harness/histgen.py']
    ctx.model('Heap', 'm_heap', constants=dict(NOBJ=3, NBUF=ctx.pick(5, 6), AliasBug='FALSE'), invariants=['NoSharing'], properties=['Frozen'],
              constraint='DigBound', coverage=True, timeout=1800)
    ctx.model('Heap', 'm_alias_bug', constants=dict(NOBJ=3, NBUF=5, AliasBug='TRUE'), invariants=['NoSharing'], constraint='DigBound',
              expect_violation='NoSharing')
    # unbounded version of the same model: NoSharing as an inductive invariant, Frozen as an action invariant (Apalache); the
    # negative control AliasBug must break the inductive step
    if apalache.available():
        runs = [('MC_HeapInd', 'IndInit', 'IndInv', 1, 'NoError'), ('MC_HeapIndBug', 'IndInit', 'IndInv', 1, 'Error')]
        if not ctx.quick:
            runs += [('MC_HeapInd', 'Init', 'IndInv', 0, 'NoError'), ('MC_HeapInd', 'IndInit', 'FrozenAct', 1, 'NoError')]
        res = []
        for mod, init, inv, length, want in runs:
            got, wall = apalache.check(mod, init, inv, length, ctx.work)
            res.append(dict(module=mod, init=init, inv=inv, length=length, outcome=got, expected=want, wall_s=round(wall, 1)))
            ctx.log(f'apalache {mod} --init={init} --inv={inv} --length={length}: {got} (expected {want}), {wall:.1f}s')
            if got != want and not got.startswith('unknown'):
                raise common.SpecError(f'Apalache: {mod} {init}/{inv}: outcome {got}, expected {want}')
        ctx.notes['apalache_inductive'] = res
    else:
        ctx.notes['apalache_inductive'] = 'apalache-mc not on PATH: skipped'
    public = sorted(n for n in dir(ptn) if not n.startswith('_'))
    ctx.notes['public_names'] = len(public)
    seeds = [ctx.replay['replay']['seed']] if ctx.replay is not None else [int(x) for x in rng.integers(1 << 30, size=ctx.pick(700, 16000))]
    traces = pmap(_hist, [(s, ctx.quick) for s in seeds])
    for s, t19 in zip(seeds, traces):
        ctx.count(s, nontrivial=any(r.get('kind') == 'fresh' and r.get('operands') for r in t19))
    ctx.notes['calls'] = sum(1 for t in traces for r in t if r.get('ev') == 'call')
    ctx.notes['pokes'] = sum(1 for t in traces for r in t if r.get('ev') == 'poke')
    for t in traces[::max(1, len(traces) // 4)]:
        ctx.sample(t[:8])
    bad = validate_chunks(ctx, 'TraceHeap', 'thp', traces, chunk=ctx.pick(60, 600))
    for idx, why in sorted(bad.items())[:40]:
        clause = why[0][2] if why and len(why[0]) > 2 else 'rejected'
        ctx.violation('aliasing:' + clause[:90], f'history seed {seeds[idx]}: record {why[0][0] if why else "?"}: {clause}',
                      dict(seed=seeds[idx], ops=[r.get('name', r.get('ev')) for r in traces[idx]]))
