"""C19 - operands are never modified and results share no state with them.

M: Heap.tla: ownership of buffers under pure / fresh / in-place calls and arbitrary later pokes: NoSharing and Frozen over
   all call sequences on a pool of 3 objects / 5 buffers; negative control AliasBug (a dropped copy).
S: random histories (the same generator as C02, plus operator graphs): before and after every call every live object is
   digested (SHA-256 over all tensors and quantum-number arrays / the graph structure) and pairwise memory sharing is
   computed (np.shares_memory over all buffers, identity of containers, identity of node / edge records); after every fresh
   result each of its buffers is perturbed in place and zero_qnumbers() is called on it, re-digesting all other objects;
   TraceHeap.tla validates every record against the Call / Poke contracts.
S (spec -> code): behaviours of Heap.tla from `tlc -simulate` are stepped through real MPS objects (plus a fixed MPO and a kept
   input vector as bystanders); live set, sharing relation and the set of changed digests are compared with the model state after
   every action.
"""
import numpy as np

from .. import common, histgen, apalache, canon, simtrace, tlc
from ..parallel import validate_chunks, pmap


def _hist(arg):
    seed, quick = arg
    return histgen.run_history(common.import_repo(), seed, quick)[1]


def replay_behaviour(arg):
    """one behaviour of Heap.tla stepped through real objects (spec -> code): the objects of the model are MPS of one sector, the
    action kinds are realised by public operations (pure: as_vector / norm / vdot / operator_average; fresh: constructor,
    from_vector, +, -, apply_operator with a fixed MPO; inplace: orthonormalize / compress / zero_qnumbers-free rewrites;
    poke: the user's own in-place change of one tensor).  After every action the abstract state of the code - live set,
    sharing relation, set of objects whose digest changed - is compared with the model's."""
    behaviour, seed = arg
    ptn = common.import_repo()
    rng = np.random.default_rng(seed)
    L = int(rng.integers(1, 5))
    qd = [0, 1] if rng.random() < 0.7 else [0, 0]
    qtot = int(rng.integers(0, L + 1)) if qd[1] else 0
    _, qD = canon.gen_charges(rng, L, 2, 'mps', 'u1', qd=qd, q_start=0, qtot=qtot, maxD=3, dead=False)
    _, qDo = canon.gen_charges(rng, L, 2, 'mpo', 'u1', qd=qd, q_start=0, qtot=0, maxD=2, dead=False)
    env = {'H': ('mpo', ptn.MPO(qd, qDo, fill='random', rng=rng)), 'v': ('vec', [rng.normal(size=2**L)])}
    objs = {}
    done = 0

    def fresh_mps():
        return ptn.MPS(qd, qD, fill='random', rng=rng)

    for action, st in behaviour:
        last = st['last']
        op, t = last['op'], last['target']
        args = sorted(simtrace.as_set(last['operands'])) if op != 'init' else []
        pool = {**env, **{f'o{k}': ('mps', x) for k, x in objs.items()}}
        before = {k: histgen.digest(c, o) for k, (c, o) in pool.items()}
        try:
            if op == 'init':
                objs[1] = fresh_mps()
            elif op == 'pure':
                for a in args:
                    objs[a].as_vector()
                    ptn.norm(objs[a])
                    ptn.operator_average(objs[a], env['H'][1])
                    for b in args:
                        ptn.vdot(objs[a], objs[b])
            elif op == 'fresh':
                if not args:
                    objs[t] = fresh_mps() if (qd[1] or rng.random() < 0.5) else ptn.MPS.from_vector(2, L, env['v'][1][0], tol=0.0)
                    if not qd[1] and len(objs[t].qD[-1]) and True:
                        pass
                elif any([int(v) for v in objs[a].qD[0]] != qD[0] or [int(v) for v in objs[a].qD[-1]] != qD[-1] for a in args):
                    # an in-place call on a zero state may relabel its boundary bond (Sector.tla, C02): + / - then refuse the
                    # operands by assertion, which is not an aliasing matter
                    return 'skipped', 'operand relabelled its boundary charge (in-place call on a zero state)', done
                elif len(args) == 1:
                    x = objs[args[0]]
                    k = int(rng.integers(4))
                    objs[t] = (x + x) if k == 0 else (x - x) if k == 1 else ptn.apply_operator(env['H'][1], x) if k == 2 else (x + fresh_mps())
                else:
                    r = objs[args[0]]
                    for a in args[1:]:
                        r = (r - objs[a]) if rng.random() < 0.3 else (r + objs[a])
                    objs[t] = r
            elif op == 'inplace':
                x = objs[t]
                mode = str(rng.choice(['left', 'right']))
                if rng.random() < 0.5:
                    x.compress(float(rng.choice([0.0, 1e-2])), mode=mode)
                else:
                    x.orthonormalize(mode=mode)
            elif op == 'poke':
                x = objs[t]
                for a in x.A:
                    a *= 1.5
                    a += 0.25 * (a != 0)
            else:
                return 'machinery', f'unknown action {op}', done
        except BaseException as ex:  # noqa
            if op == 'fresh' and isinstance(ex, (ValueError, AssertionError)) and any(a in str(ex) for a in ('quantum', 'dimension', 'shape')):
                return 'skipped', f'operands not compatible: {str(ex)[:60]}', done
            return 'violation', f'{op}: the model allows the call, the code raised {type(ex).__name__}: {str(ex)[:80]}', done
        done += 1
        live = sorted(simtrace.as_set(st['live']))
        if live != sorted(objs):
            return 'machinery', f'live sets differ: model {live} code {sorted(objs)}', done
        pool = {**env, **{f'o{k}': ('mps', x) for k, x in objs.items()}}
        # NoSharing (model: bufs of distinct live objects are disjoint)
        sh = histgen.sharing_pairs(pool)
        if sh:
            return 'violation', f'after {op}: objects {sh[0]} share memory (operands {args}, result {t})', done
        # Frozen (model: only buffers of last.target change their digest)
        changed = sorted(k for k in before if histgen.digest(*pool[k]) != before[k])
        allowed = [f'o{t}'] if op in ('inplace', 'poke') else []
        extra = [k for k in changed if k not in allowed]
        if extra:
            return 'violation', f'after {op} on {t if t else args}: object {extra[0]} changed although it is not the target', done
        if op == 'poke' and f'o{t}' not in changed:
            return 'diverged', 'poke of an all-zero object changes nothing (sparsity leaves no entry to change)', done
        if op == 'fresh':
            # a later change of the result must not reach anybody else (and the other way round is covered by later pokes)
            for k in histgen.poke(pool, f'o{t}'):
                return 'violation', f'after {op}: a change of the result {t} changed object {k}', done
    return 'ok', '', done


def replay_heap(ctx):
    prefix = ctx.work + '/heapsim'
    r = tlc.run('Heap', ctx.work, 'heapsim', workers=1, constants=dict(NOBJ=3, NBUF=6, AliasBug='FALSE'), invariants=['NoSharing'],
                constraint='DigBound', simulate=dict(num=ctx.pick(300, 6000), file=prefix), depth=ctx.pick(9, 12), seed=ctx.seed + 19, timeout=1500)
    ctx._account('heapsim', 'Heap', r, 'simulate')
    if not r.ok:
        raise common.SpecError(f'Heap simulation violated {r.violated}')
    behaviours = simtrace.load_all(prefix)
    res = pmap(replay_behaviour, [(b, ctx.seed * 104729 + k) for k, b in enumerate(behaviours)])
    tally, why = {}, {}
    for k, (verdict, detail, done) in enumerate(res):
        tally[verdict] = tally.get(verdict, 0) + 1
        ctx.traces += 1 if verdict in ('ok', 'violation') else 0
        if verdict == 'machinery':
            raise RuntimeError(f'Heap replay: {detail}')
        if verdict in ('skipped', 'diverged'):
            why[detail[:80]] = why.get(detail[:80], 0) + 1
        if verdict == 'violation':
            ops = [st['last']['op'] for _, st in behaviours[k]]
            ctx.violation('replay:' + detail.split(':')[0][:40] + ':' + detail.split(': ', 1)[-1][:30],
                          f'behaviour {k} of Heap.tla ({ops}): {detail}', dict(behaviour=k, seed=ctx.seed, ops=ops))
    ctx.notes['heap_behaviours_replayed'] = tally
    ctx.notes['heap_replay_skipped_because'] = why
    ctx.notes['heap_actions_replayed'] = sum(d for _, _, d in res)
    ctx.log(f'{len(behaviours)} TLC-simulated behaviours of Heap.tla replayed on real objects: {tally}, {ctx.notes["heap_actions_replayed"]} actions')


def run(ctx):
    ptn = common.import_repo()
    rng = np.random.default_rng(ctx.seed * 59 + 19)
    ctx.rule = ('model: all call / poke sequences on 3 objects and 5 buffers; traces: one per random history; non-trivial = history with a '
                'fresh result built from at least one operand; distinct = distinct seed')
    ctx.assumptions += ['arrays returned by dense conversion are pure results (the property does not forbid views) and are not part of '
                        'NoSharing', 'the catalogue of operation kinds (pure / fresh / in-place target) is the one of harness/histgen.py']
    ctx.model('Heap', 'm_heap', constants=dict(NOBJ=3, NBUF=ctx.pick(5, 6), AliasBug='FALSE'), invariants=['NoSharing'], properties=['Frozen'],
              constraint='DigBound', coverage=True, timeout=1800)
    ctx.model('Heap', 'm_alias_bug', constants=dict(NOBJ=3, NBUF=5, AliasBug='TRUE'), invariants=['NoSharing'], constraint='DigBound',
              expect_violation='NoSharing')
    # unbounded version of the same model: NoSharing as an inductive invariant, Frozen as an action invariant (Apalache); the
    # negative control AliasBug must break the inductive step
    if apalache.available():
        runs = [('MC_HeapInd', 'IndInit', 'IndInv', 1, 'NoError'), ('MC_HeapIndBug', 'IndInit', 'IndInv', 1, 'Error')]
        if not ctx.quick:
            runs += [('MC_HeapInd', 'Init', 'IndInv', 0, 'NoError'), ('MC_HeapInd', 'IndInit', 'FrozenAct', 1, 'NoError')]
        res = []
        for mod, init, inv, length, want in runs:
            got, wall = apalache.check(mod, init, inv, length, ctx.work)
            res.append(dict(module=mod, init=init, inv=inv, length=length, outcome=got, expected=want, wall_s=round(wall, 1)))
            ctx.log(f'apalache {mod} --init={init} --inv={inv} --length={length}: {got} (expected {want}), {wall:.1f}s')
            if got != want and not got.startswith('unknown'):
                raise common.SpecError(f'Apalache: {mod} {init}/{inv}: outcome {got}, expected {want}')
        ctx.notes['apalache_inductive'] = res
    else:
        ctx.notes['apalache_inductive'] = 'apalache-mc not on PATH: skipped'
    if ctx.replay is None:
        replay_heap(ctx)
    public = sorted(n for n in dir(ptn) if not n.startswith('_'))
    ctx.notes['public_names'] = len(public)
    seeds = [ctx.replay['replay']['seed']] if ctx.replay is not None else [int(x) for x in rng.integers(1 << 30, size=ctx.pick(700, 16000))]
    traces = pmap(_hist, [(s, ctx.quick) for s in seeds])
    for s, t19 in zip(seeds, traces):
        ctx.count(s, nontrivial=any(r.get('kind') == 'fresh' and r.get('operands') for r in t19))
    ctx.notes['calls'] = sum(1 for t in traces for r in t if r.get('ev') == 'call')
    ctx.notes['pokes'] = sum(1 for t in traces for r in t if r.get('ev') == 'poke')
    for t in traces[::max(1, len(traces) // 4)]:
        ctx.sample(t[:8])
    bad = validate_chunks(ctx, 'TraceHeap', 'thp', traces, chunk=ctx.pick(60, 600))
    for idx, why in sorted(bad.items())[:40]:
        clause = why[0][2] if why and len(why[0]) > 2 else 'rejected'
        ctx.violation('aliasing:' + clause[:90], f'history seed {seeds[idx]}: record {why[0][0] if why else "?"}: {clause}',
                      dict(seed=seeds[idx], ops=[r.get('name', r.get('ev')) for r in traces[idx]]))
