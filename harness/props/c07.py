"""C07 - molecular Hamiltonian MPOs are exact for every orbital count, both build paths.

E (TLC): for n <= 4 orbitals (spinless) and n <= 2 (spin-orbital) the returned tensors are contracted by TLC and compared
   with the second-quantized operator of Hamiltonian.tla (MolTerms / SpinMolTerms on occupation configurations); both build
   paths are compared with each other by TLC as well.
E (harness, exact integers): sweep over L up to 6 (spinless) / 3-5 (spin): the dense MPO matrix times 2 equals the matrix of
   an independent Fock-space reference (harness/fock.py, same definition as Hamiltonian.tla); optimized = explicit wherever
   both are defined; an exception inside the documented domain is a rejected event (findings F1 at L = 1, F2 at L >= 5).
N: orbital gauge transform for every pair i, L = 4..7 (thorough: 8), real / rational / complex 2x2 unitaries: v_l, v_r unitary
   and the transformed explicit MPO equals the MPO of the rotated coefficients (1e-9).
"""
import numpy as np

from .. import common, fock, canon
from ..observe import snap_array_gauss, OffLattice
from ..parallel import validate_chunks
from .c06 import scaled_tensors


def coeff_tensors(rng, n, kind):
    if kind == 'dense':
        tk = rng.integers(-3, 4, size=(n, n)).astype(float)
        vi = rng.integers(-2, 3, size=(n,) * 4).astype(float)
    elif kind == 'gauss':
        tk = rng.integers(-2, 3, size=(n, n)) + 1j * rng.integers(-2, 3, size=(n, n))
        vi = rng.integers(-2, 3, size=(n,) * 4) + 1j * rng.integers(-1, 2, size=(n,) * 4)
    elif kind == 'symmetric':
        a = rng.integers(-3, 4, size=(n, n)).astype(float)
        tk = a + a.T
        b = rng.integers(-2, 3, size=(n,) * 4).astype(float)
        vi = b + b.transpose((1, 0, 3, 2)) + b.transpose((2, 3, 0, 1)) + b.transpose((3, 2, 1, 0))
    elif kind == 'unit_t':
        tk = np.zeros((n, n)); vi = np.zeros((n,) * 4)
        tk[int(rng.integers(n)), int(rng.integers(n))] = 1.0
    elif kind == 'unit_v':
        tk = np.zeros((n, n)); vi = np.zeros((n,) * 4)
        vi[tuple(int(x) for x in rng.integers(n, size=4))] = 2.0
        if n >= 2:
            i, j = rng.choice(n, size=2, replace=False)
            vi[i, j, j, i] += 1.0           # exchange-only entry (zero pattern not symmetric under index swaps)
    elif kind == 'exchange':       # a few exchange / pair-hopping / density-density entries (sparse: cheap reference also for many orbitals)
        tk = np.zeros((n, n)); vi = np.zeros((n,) * 4)
        for _ in range(int(rng.integers(2, 5))):
            i, j = (int(x) for x in rng.choice(n, size=2, replace=(n < 2)))
            pat = int(rng.integers(4))
            idx = [(i, j, j, i), (i, i, j, j), (i, j, i, j), (i, j, j, j)][pat]
            vi[idx] += float(rng.integers(1, 4)) * (1 if rng.random() < 0.7 else -1)
        tk[int(rng.integers(n)), int(rng.integers(n))] = float(rng.integers(1, 3))
    elif kind == 'split':          # interaction entries with two orbitals in the left and two in the right half, in every index position
        tk = np.zeros((n, n)); vi = np.zeros((n,) * 4)
        h = max(1, n // 2)
        lo = h + 1 if (n - h >= 3 and rng.random() < 0.6) else h          # often strictly to the right of the centre orbital
        for _ in range(int(rng.integers(8, 17))):
            left = [int(rng.integers(0, h)) for _ in range(2)]
            right = [int(x) for x in rng.choice(np.arange(lo, n), size=2, replace=(n - lo < 2))] if n > lo else [0, 0]
            idx = left + right
            perm = rng.permutation(4)
            vi[tuple(idx[k] for k in perm)] += float(rng.integers(1, 4)) * (1 if rng.random() < 0.7 else -1)
        tk[int(rng.integers(n)), int(rng.integers(n))] = float(rng.integers(1, 3))
    elif kind == 'padded':
        tk = np.zeros((n, n)); vi = np.zeros((n,) * 4)
        m = max(1, n - 1)
        tk[:m, :m] = rng.integers(-3, 4, size=(m, m))
        vi[:m, :m, :m, :m] = rng.integers(-2, 3, size=(m,) * 4)
    elif kind == 'sparse':
        tk = rng.integers(-3, 4, size=(n, n)) * (rng.random((n, n)) < 0.4)
        vi = rng.integers(-2, 3, size=(n,) * 4) * (rng.random((n,) * 4) < 0.15)
        tk = tk.astype(float); vi = vi.astype(float)
    elif kind == 'int_t':          # integer hopping matrix with a non-integer interaction (multiples of 1/2)
        tk = rng.integers(-3, 4, size=(n, n))
        vi = rng.integers(-5, 6, size=(n,) * 4) / 2.0
    elif kind == 'real_t':         # real hopping matrix with a complex interaction
        tk = rng.integers(-3, 4, size=(n, n)).astype(float)
        vi = rng.integers(-2, 3, size=(n,) * 4) + 1j * rng.integers(-2, 3, size=(n,) * 4)
    elif kind == 'cplx_t':         # complex hopping matrix with a real (integer dtype) interaction
        tk = rng.integers(-2, 3, size=(n, n)) + 1j * rng.integers(-2, 3, size=(n, n))
        vi = rng.integers(-2, 3, size=(n,) * 4)
    else:
        raise ValueError(kind)
    if not np.any(tk) and not np.any(vi):
        tk[0, 0] = 1.0
    return tk, vi


def gsnap(a):
    return snap_array_gauss(np.asarray(a, dtype=complex), 'coefficient')


def nonzero_operator(H):
    return bool(np.any(H))


def record_case(ptn, c):
    rng = np.random.default_rng(c['seed'])
    n, spin, kind = c['n'], c['spin'], c['kind']
    tk, vi = coeff_tensors(rng, n, kind)
    ctor = ptn.spin_molecular_hamiltonian_mpo if spin else ptn.molecular_hamiltonian_mpo
    terms = (fock.spinmol_terms if spin else fock.mol_terms)(tk, vi)
    Href2 = 4 * fock.fock_matrix(terms, 2 * n if spin else n)          # 4 H: integer also for half-integer interactions
    tr = []
    if not nonzero_operator(Href2):
        return [dict(ev='flag', what='zero operator skipped', ok=True)]
    dense = {}
    herm = bool(np.array_equal(Href2, Href2.conj().T))
    for opt in c['paths']:
        try:
            tk_in, vi_in = (tk.tolist(), vi.tolist()) if c.get('lists') else (tk.copy(), vi.copy())
            if c['seed'] % 3 == 1:
                # a history: the same Hamiltonian was requested before and that result modified in place
                first = ctor(tk.copy(), vi.copy(), optimize=opt)
                first.A[0] *= 3.0
                first.zero_qnumbers() if c['seed'] % 2 else first.orthonormalize(mode='right')
            mpo = ctor(tk_in, vi_in, optimize=opt)
            if not c.get('lists'):
                tr.append(dict(ev='flag', what='constructor modified its coefficient arrays', foreign=True, ok=bool(np.array_equal(tk_in, tk) and np.array_equal(vi_in, vi)
                                                                                                 and tk_in.dtype == tk.dtype and vi_in.dtype == vi.dtype)))
            H2 = 4 * np.asarray(mpo.as_matrix(sparse_format=(n >= 5)).toarray() if n >= 5 else mpo.as_matrix())
            dense[opt] = H2
            ok = bool(np.array_equal(np.rint(H2.real), Href2.real) and np.array_equal(np.rint(H2.imag), Href2.imag)
                      and np.max(np.abs(H2 - Href2), initial=0) < 1e-9)
            tr.append(dict(ev='flag', what=f'{"spin" if spin else "spinless"} molecular MPO (optimize={opt}, L={n}, {kind}) differs from the second-quantized operator', ok=ok))
            tr.append(dict(ev='flag', what=f'molecular MPO (optimize={opt}, L={n}) tensors not block sparse / charge lists inconsistent', foreign=True,
                           ok=bool(canon.all_sparse(mpo, 'mpo') and canon.types_ok(mpo, 'mpo'))))
            if c['tlc']:
                Ts, S = scaled_tensors(mpo, 'none', 4 if spin else 2)
                tr.append(dict(ev='mol', kind='spinmol' if spin else 'mol', n=n, tk=gsnap(tk), vi=gsnap(vi), T=Ts, S=int(S),
                               qd=[int(x) for x in mpo.qd], qD=[[int(x) for x in q] for q in mpo.qD], hermitian=herm, opt=bool(opt)))
                dense[('T', opt)] = (Ts, int(S))
        except OffLattice as ex:
            tr.append(dict(ev='raise', exc=f'OffLattice: {ex}'))
        except BaseException as ex:  # noqa
            tr.append(dict(ev='raise', exc=f'{type(ex).__name__}: {str(ex)[:80]} (optimize={opt}, L={n})'))
    if True in dense and False in dense:
        tr.append(dict(ev='flag', what=f'optimized and explicit construction represent different operators (L={n}, {kind})',
                       ok=bool(np.max(np.abs(dense[True] - dense[False]), initial=0) < 1e-9)))
        if c['tlc'] and ('T', True) in dense and ('T', False) in dense:
            tr.append(dict(ev='same', T1=dense[('T', True)][0], S1=dense[('T', True)][1], T2=dense[('T', False)][0], S2=dense[('T', False)][1]))
    return tr


def unitary2(rng, kind):
    if kind == 'real':
        return np.array([[3, 4], [-4, 3]]) / 5.0
    if kind == 'rational':
        return np.array([[5, 12], [-12, 5]]) / 13.0 * ((3 + 4j) / 5)
    if kind == 'gauss':
        return np.array([[0, 1j], [1, 0]], dtype=complex)
    z = rng.normal(size=(2, 2)) + 1j * rng.normal(size=(2, 2))
    q, r = np.linalg.qr(z)
    return q * (np.diag(r) / np.abs(np.diag(r)))


def record_gauge(ptn, c):
    rng = np.random.default_rng(c['seed'])
    L, i = c['L'], c['i']
    tr = []
    try:
        tk = rng.normal(size=(L, L)) + (1j * rng.normal(size=(L, L)) if c['cplx'] else 0)
        vi = rng.normal(size=(L,) * 4) + (1j * rng.normal(size=(L,) * 4) if c['cplx'] else 0)
        ck = c.get('ckind', 'dense')
        if ck in ('tridiag', 'tridiag_sparse_v'):        # nearest-neighbour hopping (exact zeros elsewhere)
            tk = tk * (np.abs(np.subtract.outer(np.arange(L), np.arange(L))) <= 1)
        if ck in ('sparse', 'tridiag_sparse_v'):
            vi = vi * (rng.random((L,) * 4) < 0.3)
        if ck == 'sparse':
            tk = tk * (rng.random((L, L)) < 0.4)
        if ck == 'diag_t':
            tk = np.diag(np.diag(tk))
        u2 = unitary2(rng, c['ukind'])
        u = np.identity(L, dtype=complex)
        u[i:i + 2, i:i + 2] = u2
        tk_r = np.einsum(u, (2, 0), u.conj(), (3, 1), tk, (2, 3), (0, 1))
        vi_r = np.einsum(u, (4, 0), u, (5, 1), u.conj(), (6, 2), u.conj(), (7, 3), vi, (4, 5, 6, 7), (0, 1, 2, 3))
        h = ptn.molecular_hamiltonian_mpo(tk, vi, optimize=False)
        hr = ptn.molecular_hamiltonian_mpo(tk_r, vi_r, optimize=False)
        before = [a.copy() for a in h.A]
        v_l, v_r = ptn.molecular_hamiltonian_orbital_gauge_transform(h, u2.astype(complex), i)
        tr.append(dict(ev='flag', what=f'gauge matrices not unitary (L={L}, i={i})',
                       ok=bool(np.allclose(v_l.conj().T @ v_l, np.eye(len(v_l)), atol=1e-10) and np.allclose(v_r.conj().T @ v_r, np.eye(len(v_r)), atol=1e-10))))
        tr.append(dict(ev='flag', what='gauge transform modified the MPO', foreign=True, ok=bool(all(np.array_equal(a, b) for a, b in zip(before, h.A)))))
        g = ptn.MPO(h.qd, [q.tolist() for q in h.qD], fill='postpone')
        g.A = [a.copy() for a in h.A]
        g.A[i] = np.einsum(v_l, (2, 4), hr.A[i], (0, 1, 4, 3), (0, 1, 2, 3))
        g.A[i + 1] = np.einsum(v_r, (3, 4), hr.A[i + 1], (0, 1, 2, 4), (0, 1, 2, 3))
        Hg = g.as_matrix(sparse_format=True).toarray()
        Hr = hr.as_matrix(sparse_format=True).toarray()
        scale = max(1.0, float(np.max(np.abs(Hr))))
        tr.append(dict(ev='flag', what=f'gauge matrices do not transform the explicit MPO into that of the rotated coefficients (L={L}, i={i}, u={c["ukind"]}, coefficients {c.get("ckind", "dense")})',
                       ok=bool(np.max(np.abs(Hg - Hr)) <= 1e-9 * scale)))
    except BaseException as ex:  # noqa
        tr.append(dict(ev='raise', exc=f'{type(ex).__name__}: {str(ex)[:80]} (gauge L={L}, i={i})'))
    return tr


def run(ctx):
    ptn = common.import_repo()
    rng = np.random.default_rng(ctx.seed * 29 + 7)
    ctx.rule = ('traces: one per (orbital count, spinless/spin, coefficient family, seed) covering both build paths, and one per '
                '(L, rotated pair, unitary) for the gauge transform; L sweep 1..6 spinless, 1..5 spin (explicit path from its '
                'documented minimum); non-trivial = L >= 2 with a two-body term; distinct = distinct parameters')
    ctx.assumptions += ['for n > 4 (spinless) / n > 2 (spin) the comparison with the second-quantized operator is done by the harness '
                        'against harness/fock.py (exact integer arithmetic, the same definition as Hamiltonian.tla) and enters the '
                        'trace as a flag; TLC itself contracts and compares for the smaller n',
                        'gauge transform clause is mode N (1e-9) for generic unitaries']
    cases = []
    kinds = ['dense', 'gauss', 'symmetric', 'unit_t', 'unit_v', 'padded', 'sparse']
    if ctx.replay is not None:
        cases = [ctx.replay['replay']['case']]
    else:
        for n in range(1, 7):
            for kind in (kinds if not ctx.quick else (kinds if n <= 4 else ['dense', 'unit_v', 'sparse'])):
                for rep in range(ctx.pick(2, 8)):
                    paths = [True] + ([False] if n >= 4 else [])
                    cases.append(dict(t='mol', n=n, spin=False, kind=kind, paths=paths, tlc=bool(n <= 4 and rep == 0 and kind in ('dense', 'gauss', 'unit_v', 'sparse', 'symmetric')),
                                      seed=int(rng.integers(1 << 30))))
        for n in range(1, ctx.pick(5, 6) + 1):
            for kind in (['dense', 'unit_v', 'gauss', 'sparse', 'exchange'] if n <= 3 else ['unit_t', 'exchange', 'split', 'split', 'split', 'split', 'unit_v']):
                paths = ([True] if n <= 3 else []) + ([False] if n >= 2 else [])
                cases.append(dict(t='mol', n=n, spin=True, kind=kind, paths=paths, tlc=bool(n <= 2 and kind in ('dense', 'gauss', 'unit_v')),
                                  seed=int(rng.integers(1 << 30))))
        for spin, nmax in ((False, 4), (True, 3)):
            for n in range(1, nmax + 1):
                for kind in ('int_t', 'real_t', 'cplx_t'):
                    for lists in (False, True):
                        paths = [True] + ([False] if (spin and n >= 2) or (not spin and n >= 4) else [])        # explicit path: L >= 4 resp. 2
                        cases.append(dict(t='mol', n=n, spin=spin, kind=kind, paths=paths, tlc=False, lists=lists, seed=int(rng.integers(1 << 30))))
        for L in ([4, 6, 7] if ctx.quick else [4, 5, 6, 7, 8]):
            for i in range(L - 1):
                for ukind in (['generic', 'rational'] if ctx.quick else ['real', 'rational', 'gauss', 'generic']):
                    if ctx.quick and L == 7 and i not in (0, 3, 4, 5):
                        continue
                    cases.append(dict(t='gauge', L=L, i=i, ukind=ukind, cplx=bool(rng.integers(2)), seed=int(rng.integers(1 << 30))))
                # structured coefficients: the rotated partner is denser than the original
                for ckind in (['tridiag', 'sparse'] if ctx.quick else ['tridiag', 'sparse', 'tridiag_sparse_v', 'diag_t']):
                    if ctx.quick and L == 7 and i not in (0, 3, 4, 5):
                        continue
                    cases.append(dict(t='gauge', L=L, i=i, ukind='generic', ckind=ckind, cplx=bool(rng.integers(2)), seed=int(rng.integers(1 << 30))))
    traces = []
    for c in cases:
        traces.append(record_case(ptn, c) if c['t'] == 'mol' else record_gauge(ptn, c))
        ctx.count(c, nontrivial=(c.get('n', c.get('L', 0)) >= 2))
    ctx.notes['tlc_exact_mol_events'] = sum(1 for tr in traces for r in tr if r['ev'] == 'mol')
    ctx.notes['flag_events'] = sum(1 for tr in traces for r in tr if r['ev'] == 'flag')
    for tr in traces[::max(1, len(traces) // 6)]:
        ctx.sample([{k: v for k, v in r.items() if k not in ('T', 'T1', 'T2', 'tk', 'vi')} for r in tr][:4])
    bad = validate_chunks(ctx, 'TraceHamiltonian', 'tm', traces, chunk=ctx.pick(8, 40), timeout=3000)
    for idx, why in sorted(bad.items())[:40]:
        clause = why[0][2] if why and len(why[0]) > 2 else 'rejected'
        c = cases[idx]
        ctx.violation(f'molecular:{c["t"]}:{clause[:80]}', f'{c}: {clause}', dict(case=c))
