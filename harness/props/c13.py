"""C13 - compression and vector-to-MPS conversion obey their truncation error bounds.

M: Canon.tla with op = compress: preparatory sweep in the opposite direction, truncating sweep, bond dimensions never
   grow, canonical forms, ScaleBound (prod(1 - e_i) >= 1 - sum e_i >= 1 - L tol over all e_i in {0, tol/2, tol}).
S: every local QR / truncated SVD of real compress calls validated by TraceCanon.tla.
E: states with a designed Schmidt spectrum (flat, stair-case on the threshold, product, geometric; L = 2 and GHZ-like
   chains): the first truncated bond keeps exactly KeepAllowed(weights, tol) (TLC, exact rational rule).
N: norm, scale range, error identity ||nrm*scale*new - old||^2 = nrm^2 (1 - scale^2), unit norm, from_vector bound.
"""
import numpy as np

from .. import common, canon
from ..observe import digest_arrays
from ..parallel import validate_chunks
from .c01 import canon_models, gen_case, build
from .c12 import is_pow4, boundary


def spectrum_state(ptn, rng, L, ws, cplx):
    """sum_k sqrt(w_k) |k k ... k>  (GHZ-like; for L = 2 a generic Schmidt form with permuted basis labels)"""
    n = len(ws)
    d = n + int(rng.integers(0, 2))
    s = np.sqrt(np.array(ws, dtype=float))
    psi = ptn.MPS([0] * d, [[0]] + [[0] * n] * (L - 1) + [[0]], fill=0.0)
    perm = [rng.permutation(d)[:n] for _ in range(L)]
    for i in range(L):
        A = np.zeros(psi.A[i].shape, dtype=complex if cplx else float)
        for k in range(n):
            ph = (1j if cplx and rng.random() < 0.5 else 1) * (1 if rng.random() < 0.5 else -1)
            A[perm[i][k], k if i > 0 else 0, k if i < L - 1 else 0] = (s[k] if i == L - 1 else 1.0) * ph
        psi.A[i] = A
    return psi


def spectrum_state_charged(ptn, rng, ws, cplx):
    """L = 2 state  sum_k sqrt(w_k) |a_k>|b_k>  with U(1) charges: several charge sectors on the bond, the small values
    sitting in arbitrary sectors"""
    n = len(ws)
    nq = int(rng.integers(2, 4))
    qd = [int(x) for x in rng.permutation([k % nq for k in range(max(n, nq))])]
    d = len(qd)
    qtot = nq - 1
    a = list(rng.permutation(d)[:n])
    b = []
    for k in range(n):
        opts = [j for j in range(d) if qd[j] == qtot - qd[a[k]]]
        b.append(int(opts[int(rng.integers(len(opts)))]))
    # distinct (a_k, b_k) pairs with distinct a_k: orthonormal Schmidt vectors need distinct b_k as well
    if len(set(b)) < n:
        return None
    s = np.sqrt(np.array(ws, dtype=float))
    psi = ptn.MPS(qd, [[0], [qd[a[k]] for k in range(n)], [qtot]], fill=0.0)
    A0 = np.zeros(psi.A[0].shape, dtype=complex if cplx else float)
    A1 = np.zeros(psi.A[1].shape, dtype=complex if cplx else float)
    for k in range(n):
        A0[a[k], 0, k] = 1.0
        A1[b[k], k, 0] = s[k] * (1j if cplx and rng.random() < 0.5 else 1)
    psi.A = [A0, A1]
    return psi


def record_from_vector(ptn, rng, d, n, tol, kind):
    dim = d**n
    if kind == 'int':
        v = rng.integers(-3, 4, size=dim).astype(float)
    elif kind == 'product':
        v = np.ones(1)
        for _ in range(n):
            v = np.kron(v, rng.normal(size=d))
    elif kind == 'lowrank':
        v = np.zeros(dim)
        for _ in range(2):
            w = np.ones(1)
            for _ in range(n):
                w = np.kron(w, rng.normal(size=d))
            v = v + w
    elif kind == 'weak':     # weakly entangled: product state plus a tiny admixture (singular values over many decades)
        v = np.ones(1)
        for _ in range(n):
            v = np.kron(v, rng.normal(size=d))
        v = v + 10.0 ** (-int(rng.integers(6, 12))) * rng.normal(size=dim)
    elif kind == 'degenerate':     # exactly repeated Schmidt values at some cut: Bell / GHZ-like / maximally entangled / diag(2,1,1)
        v = np.zeros(dim)
        k = int(rng.integers(0, 3))
        if k == 0 or n < 2:
            for a in range(d):                                  # sum_a |a a ... a>
                v[sum(a * d**j for j in range(n))] = 1.0
        elif k == 1:
            half = n // 2                                       # maximally entangled across the middle cut
            for a in range(d**half):
                v[a * d**(n - half) + (a % d**(n - half))] = 1.0
        else:
            for a in range(d):
                v[sum(a * d**j for j in range(n))] = 2.0 if a == 0 else 1.0
        if rng.random() < 0.5:
            v = v * np.exp(1j * 0.3)
    else:
        v = rng.normal(size=dim) + 1j * rng.normal(size=dim)
    if rng.random() < 0.5:
        v = v * float(rng.choice([0.05, 0.3, 7.5, 40.0]))          # the bound is relative: norms far from one
    if not np.any(v):
        v[0] = 1.0
    before = digest_arrays([v])
    try:
        mps = ptn.MPS.from_vector(d, n, v, tol)
        w = mps.as_vector()
        nv = float(np.linalg.norm(v))
        err = float(np.linalg.norm(w - v))
        rec = dict(ev='from_vector', d=d, n=n, tol=float(tol), kind=kind,
                   err_ok=bool(err <= nv * np.sqrt(n * tol) + 5e-13 * nv and (tol > 0 or err <= 5e-13 * nv)),
                   types_ok=bool(canon.types_ok(mps, 'mps')),
                   shapes_ok=bool(mps.nsites == n and mps.bond_dims[0] == 1 and mps.bond_dims[-1] == 1
                                  and all(len(q) == D for q, D in zip(mps.qD, mps.bond_dims))),
                   exact_ok=bool(tol > 0 or kind != 'int' or np.allclose(w, v, rtol=0, atol=1e-9 * max(1.0, nv))),
                   input_unchanged=bool(before == digest_arrays([v])))
        # the result must be usable by later in-place operations (finding F3)
        try:
            mps.orthonormalize('left')
        except BaseException as ex:  # noqa
            rec['types_ok'] = False
        return [rec]
    except BaseException as ex:  # noqa
        return [dict(ev='raise', exc=f'{type(ex).__name__}: {str(ex)[:80]}')]


def run(ctx):
    ptn = common.import_repo()
    target = None
    if ctx.replay is not None:
        # the cases are regenerated deterministically from (seed, tier); only the recorded one is validated again
        rp = ctx.replay['replay']
        ctx.seed, ctx.tier, target = int(rp.get('seed', ctx.seed)), str(rp.get('tier', ctx.tier)), rp.get('index')
    rng = np.random.default_rng(ctx.seed * 5 + 13)
    ctx.rule = ('model: Canon.tla compress sweeps over all layouts; traces: one per compress call (random sector-consistent '
                'states and designed Schmidt spectra) and per from_vector call; non-trivial = call that discards at least one '
                'Schmidt value; distinct = distinct generator parameters')
    ctx.assumptions += ['mode-N bounds: 1e-10 relative (error identity compared in squared form), scale range +-1e-12',
                        'designed-spectrum cases avoid tolerances that coincide with a cumulative weight (rounding of the preparatory sweep)']
    canon_models(ctx)
    cases, traces = [], []

    def add(c, tr, nontriv=True):
        cases.append(c)
        traces.append(tr)
        ctx.count(c, nontriv)

    # ---- random states
    for _ in range(ctx.pick(300, 8000)):
        c = gen_case(rng, ctx.quick)
        c['cls'] = 'mps'
        if c['entries'] in ('zeros',):
            c['entries'] = 'complex'
        L = c['L']
        tn, td = (0, 1) if rng.random() < 0.25 else (int(rng.integers(1, 1000)), 1009 * L)
        c.update(tn=tn, td=td)
        try:
            obj = build(ptn, c)
            d0 = list(obj.bond_dims)
            tr = canon.record_canon(ptn, obj, 'mps', 'compress', c['mode'], tn, td)
            # histories: the same object is modified by the user and compressed / orthonormalized again
            hrng = np.random.default_rng(c['seed'] + 1)
            for do_poke, mode2 in c.get('hist', []):
                if tr[-1].get('ev') != 'end':
                    break
                if do_poke:
                    canon.poke(obj, hrng, tr)
                if hrng.random() < 0.7:
                    tr += canon.record_canon(ptn, obj, 'mps', 'compress', mode2, tn, td)
                else:
                    tr += canon.record_canon(ptn, obj, 'mps', 'ortho', mode2)
        except BaseException as ex:  # noqa
            tr = [dict(ev='raise', exc=f'generator: {type(ex).__name__}: {str(ex)[:80]}')]
            d0 = []
        add(c, tr, nontriv=bool(any(r.get('ev') == 'end' and sum(r['dims']) < sum(d0) for r in tr)))
    # ---- designed spectra
    pow4_sets = [[4, 4, 4, 4], [9, 4, 1, 1, 1], [4, 4, 4, 1, 1, 1, 1], [1, 1, 1, 1], [16], [36, 16, 4, 4, 4], [16, 16, 16, 16], [49, 9, 4, 1, 1]]
    other_sets = [[1], [1, 1], [1, 1, 1], [9, 4, 1], [16, 8, 4, 2, 1], [25, 16, 9, 4, 1], [100, 1, 1], [7, 7, 5, 3], [64, 16, 4, 1]]
    for _ in range(ctx.pick(250, 5000)):
        ws = list(pow4_sets[int(rng.integers(len(pow4_sets)))] if rng.random() < 0.5 else other_sets[int(rng.integers(len(other_sets)))])
        ws = [int(x) for x in rng.permutation(ws)]
        W = sum(ws)
        L = int(rng.choice([2, 2, 2, 2, 3, 4]))
        cand = [(0, 1), (int(rng.integers(1, 12)), 12 * L), (int(rng.integers(1, 24)), 24 * L)]
        tn, td = cand[int(rng.integers(len(cand)))]
        if boundary(ws, tn, td):
            continue      # after the preparatory QR sweep the Schmidt values carry rounding: a threshold tie is undecidable
        mode = 'left' if rng.random() < 0.6 else 'right'
        c = dict(kind='spectrum', ws=ws, L=L, tn=tn, td=td, mode=mode)
        try:
            psi = None
            if L == 2 and rng.random() < 0.6:
                psi = spectrum_state_charged(ptn, rng, ws, bool(rng.integers(2)))
                c['charged'] = psi is not None
            if psi is None:
                psi = spectrum_state(ptn, rng, L, ws, bool(rng.integers(2)))
            v_old = psi.as_vector()
            tr = canon.record_canon(ptn, psi, 'mps', 'compress', mode, tn, td)
            if tr[-1].get('ev') == 'end':
                # number of Schmidt values kept by the FIRST truncating step (later bonds truncate relative to the
                # already reduced norm, so the final spectrum may be shorter); the kept ones must be the largest
                first = next((r for r in tr if r.get('ev') == 'step' and r.get('kind') == 'svd'), None)
                srt = sorted(ws, reverse=True)
                if first is not None:
                    tr.append(dict(ev='firstbond', ws=ws, kept=srt[:len(first['qbond'])], tn=tn, td=td))
                if L == 2:
                    v_new = psi.as_vector()
                    d = len(psi.qd)
                    sv = np.linalg.svd(v_new.reshape((d, -1)), compute_uv=False)
                    kw = sv[sv > 1e-9]**2
                    ck = srt[:len(kw)]
                    if len(kw) and np.allclose(np.sort(kw)[::-1], np.array(ck) / sum(ck), atol=1e-9):
                        tr.append(dict(ev='firstbond', ws=ws, kept=ck, tn=tn, td=td))
                        # a history: the compressed state is compressed again (same object), with another tolerance;
                        # the rule now applies to the spectrum the first call left behind
                        cand2 = [(int(rng.integers(1, 12)), 24), (int(rng.integers(1, 24)), 48), (0, 1)]
                        tn2, td2 = cand2[int(rng.integers(len(cand2)))]
                        if rng.random() < 0.6 and not boundary(ck, tn2, td2):
                            mode2 = mode if rng.random() < 0.7 else ('right' if mode == 'left' else 'left')
                            tr += canon.record_canon(ptn, psi, 'mps', 'compress', mode2, tn2, td2)
                            if tr[-1].get('ev') == 'end':
                                sv2 = np.linalg.svd(psi.as_vector().reshape((d, -1)), compute_uv=False)
                                kw2 = sv2[sv2 > 1e-9]**2
                                ck2 = ck[:len(kw2)]
                                if len(kw2) and np.allclose(np.sort(kw2)[::-1], np.array(ck2) / sum(ck2), atol=1e-9):
                                    tr.append(dict(ev='firstbond', ws=ck, kept=ck2, tn=tn2, td=td2))
                                else:
                                    tr.append(dict(ev='raise', exc='second compression: Schmidt spectrum is not a prefix of the spectrum left by the first'))
                    else:
                        tr.append(dict(ev='raise', exc='Schmidt spectrum of the compressed state is not a prefix of the designed spectrum'))
        except BaseException as ex:  # noqa
            tr = [dict(ev='raise', exc=f'generator: {type(ex).__name__}: {str(ex)[:80]}')]
        add(c, tr, nontriv=tn > 0)
    # ---- from_vector
    for _ in range(ctx.pick(200, 4000)):
        d, n = int(rng.choice([1, 2, 2, 3])), int(rng.choice([1, 2, 3, 4, 5]))
        tol = 0.0 if rng.random() < 0.4 else float(rng.integers(1, 1000)) / (1009 * n)
        kind = str(rng.choice(['int', 'product', 'lowrank', 'generic', 'weak', 'weak', 'degenerate']))
        add(dict(kind='from_vector', d=d, n=n, tol=tol, vkind=kind), record_from_vector(ptn, rng, d, n, tol, kind))
    ctx.notes['local_steps'] = sum(1 for tr in traces for r in tr if r['ev'] == 'step')
    ctx.notes['firstbond_events'] = sum(1 for tr in traces for r in tr if r['ev'] == 'firstbond')
    for tr in traces[2:len(traces):max(1, len(traces) // 5)]:
        ctx.sample(tr[:4])
    offset = 0
    if target is not None:
        if not (0 <= int(target) < len(traces)):
            raise RuntimeError('replay: the recorded case index does not exist for the recorded seed / tier')
        offset = int(target)
        cases, traces = [cases[offset]], [traces[offset]]
    bad = validate_chunks(ctx, 'TraceCanon', 'tcp', traces, chunk=ctx.pick(100, 1000), relax=canon.relax)
    for idx, why in sorted(bad.items())[:40]:
        c = cases[idx]
        clause = why[0][2] if why and len(why[0]) > 2 else 'rejected'
        ctx.violation(f'compress:{c.get("kind", "random")}:{clause[:70]}', f'{c}: record {why[0][0] if why else "?"}: {clause}',
                      dict(case=c, seed=ctx.seed, tier=ctx.tier, index=idx + offset, trace=traces[idx]))
