"""C08 - real-time TDVP conserves norm, energy and quantum numbers.

M: Sweep.tla (tdvp1, tdvp2): WellPosed at every local problem, time accounting (+2 half steps per site, -2 per bond per
   step), symmetric local-problem word; negative controls (skipped environment update, wrong fraction / sign).
S: every local problem of real runs is observed: kind, site, exact time fraction (bit comparison with +-dt/2, +-dt),
   freshness of both environment blocks (recomputed from the tensors currently in psi), canonical forms; validated by
   TraceSweep.tla against the program; bookkeeping clauses (returned norm, H digest, bond dimensions, boundary charges).
N: | ||psi|| - 1 | and | <H> - E0 | <= 1e-9 after the call (purely imaginary dt, zero split tolerance).
"""
import numpy as np

from .. import common, sweepgen
from ..parallel import validate_chunks, pmap

INV = ['WellPosed', 'TimeOK', 'TimeOK2', 'Symmetric', 'RecordOK', 'LastLocalOK', 'LastLocalOK2', 'FinalCanon']


def sweep_models(ctx, algs):
    algset = '{' + ','.join(f'"{a}"' for a in algs) + '}'
    ctx.model('Sweep', 'm_programs', constants=dict(LMAX=ctx.pick(6, 8), NMAX=ctx.pick(2, 3), ALGS=algset, Bug='"none"'), invariants=INV,
              coverage=True, timeout=1800)
    negs = [('skip_envl', 'tdvp1', 'WellPosed'), ('skip_envr', 'tdvp1', 'WellPosed'), ('half_full', 'tdvp1', 'TimeOK'), ('bond_plus', 'tdvp1', 'TimeOK'),
            ('skip_envl', 'dmrg1', 'WellPosed')]
    for bug, alg, inv in negs:
        if alg in algs:
            ctx.model('Sweep', f'm_neg_{bug}_{alg}', constants=dict(LMAX=4, NMAX=2, ALGS=f'{{"{alg}"}}', Bug=f'"{bug}"'), invariants=[inv],
                      expect_violation=inv)


def gen_case(rng, quick):
    alg = 'tdvp1' if rng.random() < 0.55 else 'tdvp2'
    kind = str(rng.choice(['xxz', 'xxz', 'ising', 'bose', 'fermi_hubbard', 'xxz1', 'complex', 'complex']))
    Lmax = 3 if kind in ('fermi_hubbard',) else 4 if kind in ('xxz1', 'bose') else 6
    L = int(rng.integers(1 if alg == 'tdvp1' else 2, Lmax + 1))
    return dict(alg=alg, kind=kind, L=L, nsteps=int(rng.integers(1, 4)), numiter=int(rng.choice([1, 2, 3, 5, 25])),
                maxD=int(rng.integers(1, 5)), real=bool(rng.random() < 0.25), repeat=bool(rng.random() < 0.3),
                dtabs=float(rng.choice([0.01, 0.05, 0.2])), seed=int(rng.integers(1 << 30)))


def record(c):
    ptn = common.import_repo()
    rng = np.random.default_rng(c['seed'])
    try:
        H = sweepgen.make_hamiltonian(ptn, rng, c['L'], c['kind'])
        psi = sweepgen.random_state(ptn, rng, H, maxD=c['maxD'], real=c['real'])
        dt = 1j * c['dtabs'] * (1 if rng.random() < 0.5 else -1)
        tr = sweepgen.record_tdvp(ptn, H, psi, c['alg'], dt, c['nsteps'], c['numiter'])
        if c['repeat'] and tr[-1].get('ev') == 'end':
            # a history: the user changes the state or the Hamiltonian between two calls on the same objects
            how = str(rng.choice(['none', 'scale_psi', 'ortho_left', 'quench_H', 'quench_H', 'local_op']))
            k = int(rng.integers(c['L']))
            if how == 'scale_psi':
                psi.A[k] = psi.A[k] * 0.5
            elif how == 'ortho_left':
                psi.orthonormalize(mode='left')
                psi.A[-1] = psi.A[-1] * 1.5
            elif how == 'quench_H':
                # parameter quench in place: the tensors of another Hamiltonian of the same model overwrite those of H
                H2 = sweepgen.make_hamiltonian(ptn, rng, c['L'], c['kind'])
                if all(a.shape == b.shape for a, b in zip(H.A, H2.A)) and all(np.array_equal(x, y) for x, y in zip(H.qD, H2.qD)):
                    for a, b in zip(H.A, H2.A):
                        a[...] = b
                else:
                    H.A[k] *= 1.3
            elif how == 'local_op':
                d = len(psi.qd)
                u = np.diag(np.exp(1j * np.arange(d)))       # diagonal phase: conserves the charges
                psi.A[k] = np.einsum('st,tab->sab', u, psi.A[k])
            alg2 = c['alg'] if rng.random() < 0.8 else ('tdvp2' if c['alg'] == 'tdvp1' and c['L'] >= 2 else 'tdvp1')
            sweepgen.record_tdvp(ptn, H, psi, alg2, dt, 1, c['numiter'], tr=tr)
        return tr
    except BaseException as ex:  # noqa
        return [dict(ev='raise', exc=f'generator: {type(ex).__name__}: {str(ex)[:80]}')]


def run(ctx):
    ptn = common.import_repo()
    rng = np.random.default_rng(ctx.seed * 41 + 8)
    ctx.rule = ('model: the tdvp1 / tdvp2 programs for L = 1..6 and 1..3 steps; traces: one per run (optionally a repeated call on '
                'the same state) on Hermitian MPOs (XXZ, Ising, Bose-Hubbard, Fermi-Hubbard, spin-1, random complex Hermitian), '
                'sector-consistent random states (complex or real tensors), numiter in {1,2,3,5,25}; non-trivial = run with a bond '
                'of dimension > 1; distinct = distinct seed')
    ctx.assumptions += ['kernel contract of the Hermitian Krylov exponential (checked as C15)', 'mode-N bounds 1e-9',
                        'site indices / environment lists / outer dt are read from the caller frame of the wrapped helpers']
    sweep_models(ctx, ['tdvp1', 'tdvp2'])
    cases = [ctx.replay['replay']['case']] if ctx.replay is not None else [gen_case(rng, ctx.quick) for _ in range(ctx.pick(400, 16000))]
    traces = pmap(record, cases)
    for c, tr in zip(cases, traces):
        ctx.count(c, nontrivial=c['maxD'] > 1 and c['L'] > 1)
    ctx.notes['local_problems_observed'] = sum(1 for tr in traces for r in tr if r['ev'] == 'local')
    for tr in traces[::max(1, len(traces) // 4)]:
        ctx.sample(tr[:6] + tr[-1:])
    bad = validate_chunks(ctx, 'TraceSweep', 'tsw', traces, chunk=ctx.pick(20, 500), relax=sweepgen.relax)
    for idx, why in sorted(bad.items())[:40]:
        clause = why[0][2] if why and len(why[0]) > 2 else 'rejected'
        ctx.violation(f'tdvp:{cases[idx]["alg"]}:{clause[:70]}', f'{cases[idx]}: record {why[0][0] if why else "?"}: {clause}', dict(case=cases[idx]))
