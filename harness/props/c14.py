"""C14 - Lanczos and Arnoldi iterations satisfy their Krylov factorization relations.

M: Krylov.tla: for all n <= 6, m <= 8, kdim <= n: returned size k = min(m, kdim), warning iff k < m, termination.
S: real calls on integer / Gaussian-integer matrices (generic, degenerate, block-diagonal in a hidden basis, scalar,
   ladder, projector) with generic / real / unit / invariant-subspace start vectors, m = 1 .. n+2; the exact Krylov
   dimension is computed over the rationals and TraceKrylov.tla checks the size / warning protocol against it.
N: orthonormality, V^H A V = T (leading part up to the exhaustion point), real alpha, positive beta, Hessenberg form.
"""
import numpy as np

from .. import common, krylovgen
from ..parallel import validate_chunks

LEVEL = 'other'


def run(ctx):
    ptn = common.import_repo()
    target = None
    if ctx.replay is not None:
        # cases are regenerated deterministically from (seed, tier); only the recorded one is validated again
        rp = ctx.replay['replay']
        ctx.seed, ctx.tier, target = int(rp.get('seed', ctx.seed)), str(rp.get('tier', ctx.tier)), rp.get('index')
    rng = np.random.default_rng(ctx.seed * 31 + 14)
    ctx.explanation = ('The factorization relations are floating-point facts: TLC decides the size / branch protocol exactly '
                       '(Krylov.tla model checked for all n, m, kdim of the bounds; every recorded call validated against it with an '
                       'exactly computed Krylov dimension) and evaluates the observed defects (orthonormality, projection, coefficient '
                       'structure) as trace predicates with bound 1e-10 / 1e-9 relative to ||A||.')
    ctx.rule = ('one trace per call; integer matrices n <= 8 of seven families x four start-vector families x m in 1..n+2; '
                'non-trivial = call with kdim >= 2; distinct = distinct (A, v, m)')
    ctx.assumptions += ['calls whose off-diagonal coefficients fall in (1e-13, 1e-6) are marked ambiguous for the size clause '
                        '(absolute breakdown threshold of the code versus exact rank)']
    ctx.model('Krylov', 'm_protocol', constants=dict(NMAX=ctx.pick(5, 7), MMAX=ctx.pick(7, 9)),
              invariants=['SizesOK', 'WarnOK', 'RoutingOK', 'ExhaustedSpans'], properties=['Terminates'], coverage=True)
    traces, cases = [], []
    for _ in range(ctx.pick(700, 120000)):
        herm = bool(rng.integers(2))
        A, v, fam, vk = krylovgen.gen_problem(rng, herm)
        n = len(v)
        m = int(rng.integers(1, n + 3))
        rec = krylovgen.record_lanczos(ptn, A, v, m) if herm else krylovgen.record_arnoldi(ptn, A, v, m)
        traces.append([rec])
        cases.append(dict(fam=fam, vk=vk, n=n, m=m, herm=herm, A_re=np.real(A).tolist(), A_im=np.imag(A).tolist(),
                          v_re=np.real(v).tolist(), v_im=np.imag(v).tolist()))
        ctx.count([np.asarray(A).tolist().__repr__(), np.asarray(v).tolist().__repr__(), m], nontrivial=rec.get('kdim', 0) >= 2)
    ctx.notes['early_terminations'] = sum(1 for t in traces if t[0].get('warned'))
    ctx.notes['ambiguous'] = sum(1 for t in traces if t[0].get('ambiguous'))
    for t in traces[::max(1, len(traces) // 6)]:
        ctx.sample(t[0])
    offset = 0
    if target is not None and 0 <= int(target) < len(traces):
        offset = int(target)
        cases, traces = [cases[offset]], [traces[offset]]
    bad = validate_chunks(ctx, 'TraceKrylov', 'tk', traces, chunk=ctx.pick(400, 8000))
    for idx, why in sorted(bad.items())[:40]:
        clause = why[0][2] if why and len(why[0]) > 2 else 'rejected'
        c = cases[idx]
        ctx.violation(f'krylov:{traces[idx][0].get("ev")}:{clause[:70]}', f'{ {k: c[k] for k in ("fam", "vk", "n", "m", "herm")} }: {clause}', dict(case=c, seed=ctx.seed, tier=ctx.tier, index=idx + offset, record=traces[idx][0]))
