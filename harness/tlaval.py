"""Parser for TLA+ values as printed by TLC (PrintT output, -dump files, simulation traces)."""
import re

_tok = re.compile(r'\s*(<<|>>|\|->|:>|@@|\[|\]|\{|\}|\(|\)|,|"(?:[^"\\]|\\.)*"|-?\d+|[A-Za-z_][A-Za-z0-9_]*)')


class TlaParseError(Exception):
    pass


def tokenize(s):
    pos = 0
    out = []
    n = len(s)
    while pos < n:
        m = _tok.match(s, pos)
        if not m:
            if s[pos:].strip() == '':
                break
            raise TlaParseError(f'bad token at {pos}: {s[pos:pos+40]!r}')
        out.append(m.group(1))
        pos = m.end()
    return out


def parse(s):
    toks = tokenize(s)
    v, i = _parse(toks, 0)
    if i != len(toks):
        raise TlaParseError(f'trailing tokens {toks[i:i+5]}')
    return v


def _parse(t, i):
    tok = t[i]
    if tok == '<<':
        i += 1
        items = []
        while t[i] != '>>':
            v, i = _parse(t, i)
            items.append(v)
            if t[i] == ',':
                i += 1
        return items, i + 1
    if tok == '{':
        i += 1
        items = []
        while t[i] != '}':
            v, i = _parse(t, i)
            items.append(v)
            if t[i] == ',':
                i += 1
        return ('set', items), i + 1
    if tok == '[':
        i += 1
        rec = {}
        while t[i] != ']':
            key = t[i]
            assert t[i+1] == '|->', t[i:i+3]
            v, i = _parse(t, i + 2)
            rec[key] = v
            if t[i] == ',':
                i += 1
        return rec, i + 1
    if tok == '(':
        # function  (a :> b @@ c :> d)
        i += 1
        fn = {}
        while t[i] != ')':
            k, i = _parse(t, i)
            assert t[i] == ':>', t[i]
            v, i = _parse(t, i + 1)
            fn[_hashable(k)] = v
            if t[i] == '@@':
                i += 1
        return fn, i + 1
    if tok.startswith('"'):
        return bytes(tok[1:-1], 'utf-8').decode('unicode_escape'), i + 1
    if re.fullmatch(r'-?\d+', tok):
        return int(tok), i + 1
    if tok == 'TRUE':
        return True, i + 1
    if tok == 'FALSE':
        return False, i + 1
    return ('id', tok), i + 1


def _hashable(v):
    if isinstance(v, list):
        return tuple(_hashable(x) for x in v)
    if isinstance(v, dict):
        return tuple(sorted((k, _hashable(x)) for k, x in v.items()))
    if isinstance(v, tuple) and v and v[0] == 'set':
        return frozenset(_hashable(x) for x in v[1])
    return v


def extract_values(text, opener='<<'):
    """Yield top-level <<...>> values found in TLC output by bracket matching (robust to multi-line prints)."""
    i = 0
    n = len(text)
    while True:
        j = text.find(opener, i)
        if j < 0:
            return
        depth = 0
        k = j
        instr = False
        while k < n:
            c = text[k]
            if instr:
                if c == '\\':
                    k += 1
                elif c == '"':
                    instr = False
            elif c == '"':
                instr = True
            elif text.startswith('<<', k):
                depth += 1
                k += 1
            elif text.startswith('>>', k):
                depth -= 1
                k += 1
                if depth == 0:
                    break
            k += 1
        yield text[j:k+1]
        i = k + 1
