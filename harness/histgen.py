"""Random histories of public operations on a pool of MPS / MPO / OpGraph objects, observed after every call for
C02 (block sparsity and list lengths as invariants of every history) and C19 (operands frozen, results share no state)."""
import hashlib
import warnings

import numpy as np

from . import canon, sweepgen
from .observe import graph_json


# ------------------------------------------------------------------------------------------------- observation
def arrays_of(cls, obj):
    if cls == 'graph':
        return []
    if cls == 'vec':            # plain arrays handed to a constructor by the user (from_vector input, operator map)
        return list(obj)
    out = list(obj.A) + [obj.qd] + list(obj.qD)
    return [a for a in out if isinstance(a, np.ndarray)]


def digest(cls, obj):
    h = hashlib.sha256()
    if cls == 'graph':
        h.update(repr(graph_json(obj)).encode())
        return h.hexdigest()[:16]
    for a in (list(obj) if cls == 'vec' else list(obj.A) + [obj.qd] + list(obj.qD)):
        if isinstance(a, np.ndarray):
            h.update(str(a.dtype).encode() + str(a.shape).encode() + np.ascontiguousarray(a).tobytes())
        else:
            h.update(repr(a).encode())
    return h.hexdigest()[:16]


def project(name, cls, obj):
    """C02 projection of one MPS / MPO"""
    bd = 1 if cls == 'mps' else 2
    try:
        dims = [int(a.shape[bd]) for a in obj.A] + [int(obj.A[-1].shape[bd + 1])]
        qlens = [int(len(q)) for q in obj.qD]
        shapes_ok = all(obj.A[i].shape[bd + 1] == obj.A[i + 1].shape[bd] for i in range(len(obj.A) - 1)) and \
            all(a.shape[0] == len(obj.qd) for a in obj.A)
        v = obj.as_vector() if cls == 'mps' else obj.as_matrix()
        zero = not np.any(v)
        return dict(id=name, cls=cls, dims=dims, qlens=qlens, kinds_ok=bool(all(isinstance(q, (np.ndarray, list, tuple)) for q in [obj.qd] + list(obj.qD))),
                    shapes_ok=bool(shapes_ok), sparse_ok=bool(canon.all_sparse(obj, cls)),
                    q0=[int(x) for x in np.asarray(obj.qD[0]).reshape(-1)][:1], qL=[int(x) for x in np.asarray(obj.qD[-1]).reshape(-1)][:1], zero=bool(zero))
    except Exception as ex:  # noqa
        return dict(id=name, cls=cls, dims=[-1], qlens=[-2], kinds_ok=False, shapes_ok=False, sparse_ok=False, q0=[0], qL=[0], zero=False,
                    err=f'{type(ex).__name__}: {str(ex)[:60]}')


def sharing_pairs(pool):
    names = sorted(pool)
    out = []
    for x in range(len(names)):
        for y in range(x + 1, len(names)):
            cx, ox = pool[names[x]]
            cy, oy = pool[names[y]]
            if cx == 'graph' or cy == 'graph':
                if cx == 'graph' and cy == 'graph':
                    ids_x = {id(n) for n in ox.nodes.values()} | {id(e) for e in ox.edges.values()}
                    ids_y = {id(n) for n in oy.nodes.values()} | {id(e) for e in oy.edges.values()}
                    if (ids_x & ids_y) or (ox.nid_terminal is oy.nid_terminal and isinstance(ox.nid_terminal, list)):
                        out.append([names[x], names[y]])
                continue
            ax, ay = arrays_of(cx, ox), arrays_of(cy, oy)
            if any(np.shares_memory(a, b) for a in ax for b in ay) or \
                    (cx != 'vec' and cy != 'vec' and ((ox.A is oy.A) or (ox.qD is oy.qD))):
                out.append([names[x], names[y]])
    return out


def poke(pool, name):
    """perturb every buffer of object `name` in place (and restore it); report which OTHER objects changed meanwhile"""
    cls, obj = pool[name]
    before = {k: digest(c, o) for k, (c, o) in pool.items() if k != name}
    changed = set()
    if cls == 'graph':
        for e in list(obj.edges.values()):
            saved = list(e.opics)
            e.opics = [(i, c + 1.0) for i, c in e.opics]
            for k, (c, o) in pool.items():
                if k != name and digest(c, o) != before[k]:
                    changed.add(k)
            e.opics = saved
        # the documented in-place rewrites as well: flip (twice = identity) and a rename of a terminal node (and back)
        try:
            obj.flip()
            for k, (c, o) in pool.items():
                if k != name and digest(c, o) != before[k]:
                    changed.add(k)
            obj.flip()
            t0 = obj.nid_terminal[0]
            fresh = max(list(obj.nodes) + [0]) + 17
            obj.rename_node_id(t0, fresh)
            for k, (c, o) in pool.items():
                if k != name and digest(c, o) != before[k]:
                    changed.add(k)
            obj.rename_node_id(fresh, t0)
        except Exception:
            pass
        return sorted(changed)
    for a in arrays_of(cls, obj):
        if a.size == 0:
            continue
        saved = a.copy()
        if np.issubdtype(a.dtype, np.integer):
            a += 1
        else:
            a *= 2.0
            a += 1.0
        for k, (c, o) in pool.items():
            if k != name and digest(c, o) != before[k]:
                changed.add(k)
        a[...] = saved
    # the documented chaining mutator as well
    saved = [x.copy() for x in arrays_of(cls, obj)]
    try:
        obj.zero_qnumbers()
        for k, (c, o) in pool.items():
            if k != name and digest(c, o) != before[k]:
                changed.add(k)
    except Exception:
        pass        # an object whose own containers are malformed is reported through the C02 projection, not here
    finally:
        for x, s in zip(arrays_of(cls, obj), saved):
            x[...] = s
    return sorted(changed)


# ------------------------------------------------------------------------------------------------- histories
def run_history(ptn, seed, quick, want_graphs=True):
    """returns (c02 trace, c19 trace).  One history in seven is focused on MPS.from_vector (all-zero physical charges, short
    chains incl. a single site, the input vector kept alive as an object of the pool)."""
    rng = np.random.default_rng(seed)
    t02, t19 = [], []
    pool = {}
    nid = [0]
    focus_fv = (seed % 7 == 3)
    focus_graph = (seed % 7 == 5) and want_graphs          # one history in seven is focused on operator graphs (from_opchains / add / to MPO)
    fam_model = rng.random() < 0.6 and not focus_fv
    L = int(rng.integers(1, 5 if fam_model else 4))
    if focus_fv:
        L = int(rng.choice([1, 1, 2, 3]))
    try:
        if fam_model:
            kind = str(rng.choice(['xxz', 'xxz', 'bose', 'fermi_hubbard', 'ising', 'complex']))
            if kind == 'fermi_hubbard':
                L = min(L, 3)
            H = sweepgen.make_hamiltonian(ptn, rng, L, kind)
            qd = [int(x) for x in H.qd]
            if rng.random() < 0.3 and all(not np.any(np.imag(a)) for a in H.A):
                H.A = [np.ascontiguousarray(np.real(a)) for a in H.A]        # a real-valued Hamiltonian (float64 tensors)
        else:
            kind = 'generic'
            style = 'zero' if focus_fv else str(rng.choice(['u1', 'u1', 'zero', 'pair', 'repeated']))
            qd, _ = canon.gen_charges(rng, L, int(rng.integers(1, 4)), 'mps', style)
            H = None
    except BaseException as ex:  # noqa
        rec = dict(ev='raise', exc=f'generator: {type(ex).__name__}: {str(ex)[:80]}')
        return [rec], [rec]
    qtot = [None]
    q_lead = int(rng.integers(-1, 3)) if rng.random() < 0.35 else 0

    def add_obj(cls, obj):
        nid[0] += 1
        pool[nid[0]] = (cls, obj)
        return nid[0]

    def new_state(maxD=3):
        # now and then a state whose bond charges cannot be connected (the zero state with disjoint sectors: dummy bonds of the
        # block QR / SVD)
        sty = 'disjoint' if rng.random() < 0.08 else 'u1'
        _, qD = canon.gen_charges(rng, L, len(qd), 'mps', sty, qd=qd, q_start=q_lead, qtot=qtot[0], maxD=maxD, dead=bool(rng.random() < 0.2))
        qtot[0] = qD[-1][0]
        fill = 'random' if rng.random() < 0.85 else float(rng.choice([1.0, 0.5, -2.0]))
        psi = ptn.MPS(qd, qD, fill=fill, rng=rng)
        return psi

    def new_op(maxD=2):
        _, qD = canon.gen_charges(rng, L, len(qd), 'mpo', 'u1', qd=qd, q_start=0, qtot=0, maxD=maxD, dead=False)
        return ptn.MPO(qd, qD, fill='random' if rng.random() < 0.8 else float(rng.choice([1.0, 0.25])), rng=rng)

    def observe(name, kind_, target, created, operands, fn):
        """run fn() (the real call) and append the C02 / C19 records"""
        before = {k: digest(c, o) for k, (c, o) in pool.items()}
        bq = {k: (list(np.asarray(o.qD[0]).reshape(-1)[:1]), list(np.asarray(o.qD[-1]).reshape(-1)[:1])) for k, (c, o) in pool.items() if c not in ('graph', 'vec')}
        bz = {k: (not np.any(o.as_vector() if c == 'mps' else o.as_matrix())) for k, (c, o) in pool.items() if c not in ('graph', 'vec')}
        try:
            with warnings.catch_warnings():
                warnings.simplefilter('ignore')
                newname = fn()
        except BaseException as ex:  # noqa
            rec = dict(ev='raise', op=name, exc=f'{type(ex).__name__}: {str(ex)[:80]}')
            t02.append(rec)
            t19.append(rec)
            return None
        changed = sorted(k for k in before if k in pool and digest(*pool[k]) != before[k])
        objs = [project(k, c, o) for k, (c, o) in sorted(pool.items()) if c not in ('graph', 'vec')]
        bfix = True
        if kind_ == 'inplace' and target in bq and not bz.get(target, False):
            c, o = pool[target]
            bfix = (list(np.asarray(o.qD[0]).reshape(-1)[:1]) == bq[target][0]) and (list(np.asarray(o.qD[-1]).reshape(-1)[:1]) == bq[target][1])
        if pool.get(target, ('', None))[0] in ('graph', 'vec') or pool.get(newname, ('', None))[0] in ('graph', 'vec') \
                or name.startswith('OpGraph.') or name.startswith('numpy'):
            rule = 'graph'              # objects outside the C02 projection (operator graphs, plain arrays)
        elif kind_ == 'inplace':
            rule = 'inplace'
        elif kind_ == 'pure':
            rule = 'pure'
        else:
            rule = {'mps+': 'add', 'mps-': 'add', 'mpo+-': 'add', 'mpo@': 'mul', 'apply_operator': 'apply',
                    'MPS.from_vector': 'from_vector'}.get(name, 'create')
        t02.append(dict(ev='op', name=name, kind=kind_, rule=rule, target=int(target or 0), created=int(newname or 0),
                        operands=[int(x) for x in operands if pool.get(x, ('', None))[0] != 'vec'], objs=objs, boundary_fixed=bool(bfix)))
        t19.append(dict(ev='call', name=name, kind=kind_, target=int(target or 0), created=int(newname or 0), operands=[int(x) for x in operands],
                        changed=[int(x) for x in changed], sharing=sharing_pairs(pool)))
        if newname and kind_ == 'fresh':
            t19.append(dict(ev='poke', obj=int(newname), changed_others=[int(x) for x in poke(pool, newname)]))
        return newname

    # initial objects
    observe('MPS()', 'fresh', None, True, [], lambda: add_obj('mps', new_state()))
    observe('MPS()', 'fresh', None, True, [], lambda: add_obj('mps', new_state()))
    if H is not None:
        observe(f'{kind}_mpo', 'fresh', None, True, [], lambda: add_obj('mpo', H))
    else:
        observe('MPO()', 'fresh', None, True, [], lambda: add_obj('mpo', new_op()))
    if focus_graph:
        for _ in range(2):
            def mk0():
                chains = [ptn.OpChain([int(rng.integers(0, 3)) for _ in range(n)], [0] * (n + 1), float(rng.integers(1, 4)), int(rng.integers(0, L - n + 1)))
                          for n in [int(rng.integers(1, L + 1)) for _ in range(int(rng.integers(1, 4)))]]
                return ptn.OpGraph.from_opchains(chains, L, 0)
            observe('OpGraph.from_opchains', 'fresh', None, True, [], lambda: add_obj('graph', mk0()))
    nops = int(rng.integers(4, 9 if quick else 13))
    for _ in range(nops):
        if t02 and t02[-1].get('ev') == 'raise':
            break
        mpss = [k for k, (c, o) in pool.items() if c == 'mps' and max(o.bond_dims) <= 12]
        mpos = [k for k, (c, o) in pool.items() if c == 'mpo' and max(o.bond_dims) <= 6]
        graphs = [k for k, (c, o) in pool.items() if c == 'graph']
        ops = ['ortho', 'ortho', 'compress', 'add', 'sub', 'apply', 'vdot', 'norm', 'avg', 'dense', 'split', 'new']
        if L <= 3:
            ops += ['mul', 'addop']
        if fam_model:
            ops += ['tdvp1', 'tdvp2', 'dmrg1', 'dmrg2', 'tdvp1', 'dmrg1']
        if all(q == 0 for q in qd):
            ops += ['from_vector']
        if focus_fv:
            ops = ['from_vector', 'from_vector', 'from_vector', 'ortho', 'compress', 'add', 'dense', 'norm', 'vdot', 'pokevec']
        if focus_graph:
            ops = ['graph', 'graph', 'graph', 'graph', 'dense', 'mul', 'addop', 'ortho']
        vecs = [k for k, (c, o) in pool.items() if c == 'vec']
        if want_graphs:
            ops += ['graph']
        op = str(rng.choice(ops))
        a = int(rng.choice(mpss)) if mpss else None
        b = int(rng.choice(mpss)) if mpss else None
        w = int(rng.choice(mpos)) if mpos else None
        if op == 'new':
            observe('MPS()', 'fresh', None, True, [], lambda: add_obj('mps', new_state(int(rng.integers(1, 5)))))
        elif op == 'ortho' and a:
            mode = str(rng.choice(['left', 'right']))
            cls_t = 'mps'
            t = a if rng.random() < 0.8 or not mpos else w
            observe(f'orthonormalize({mode})', 'inplace', t, None, [], lambda: pool[t][1].orthonormalize(mode=mode) and None)
        elif op == 'compress' and a:
            tol = float(rng.choice([0.0, 1e-3, 0.05, 0.2])) / max(1, L)
            mode = str(rng.choice(['left', 'right']))
            observe(f'compress({tol:.3g},{mode})', 'inplace', a, None, [], lambda: pool[a][1].compress(tol, mode=mode) and None)
        elif op in ('add', 'sub') and a and b:
            oa, ob = pool[a][1], pool[b][1]
            if not (np.array_equal(oa.qD[0], ob.qD[0]) and np.array_equal(oa.qD[-1], ob.qD[-1])):
                continue
            observe('mps' + ('+' if op == 'add' else '-'), 'fresh', None, True, [a, b], lambda: add_obj('mps', (oa + ob) if op == 'add' else (oa - ob)))
        elif op == 'addop' and w:
            w2 = int(rng.choice(mpos))
            oa, ob = pool[w][1], pool[w2][1]
            if not (np.array_equal(oa.qD[0], ob.qD[0]) and np.array_equal(oa.qD[-1], ob.qD[-1])):
                continue
            observe('mpo+-', 'fresh', None, True, [w, w2], lambda: add_obj('mpo', (oa + ob) if rng.random() < 0.5 else (oa - ob)))
        elif op == 'mul' and w:
            w2 = int(rng.choice(mpos))
            observe('mpo@', 'fresh', None, True, [w, w2], lambda: add_obj('mpo', pool[w][1] @ pool[w2][1]))
        elif op == 'apply' and w and a:
            observe('apply_operator', 'fresh', None, True, [w, a], lambda: add_obj('mps', ptn.apply_operator(pool[w][1], pool[a][1])))
        elif op == 'vdot' and a and b:
            observe('vdot', 'pure', None, None, [a, b], lambda: ptn.vdot(pool[a][1], pool[b][1]) and None)
        elif op == 'norm' and a:
            observe('norm', 'pure', None, None, [a], lambda: ptn.norm(pool[a][1]) and None)
        elif op == 'avg' and a and w:
            observe('operator_average', 'pure', None, None, [a, w], lambda: ptn.operator_average(pool[a][1], pool[w][1]) and None)
        elif op == 'dense' and a:
            def f():
                pool[a][1].as_vector()
                if w:
                    pool[w][1].as_matrix(sparse_format=bool(rng.integers(2)))
            observe('as_vector/as_matrix', 'pure', None, None, [a] + ([w] if w else []), f)
        elif op == 'split' and a and L >= 2:
            def f():
                psi = pool[a][1]
                i = int(rng.integers(0, L - 1))
                Am = ptn.merge_mps_tensor_pair(psi.A[i], psi.A[i + 1])
                ptn.split_mps_tensor(Am, psi.qd, psi.qd, [psi.qD[i], psi.qD[i + 2]], str(rng.choice(['left', 'right', 'sqrt'])), tol=0.0)
            observe('merge/split_mps_tensor', 'pure', None, None, [a], f)
        elif op == 'pokevec' and vecs:
            # the user reuses (overwrites) an array that was handed to a constructor earlier
            vname = int(rng.choice(vecs))

            def f():
                for arr in pool[vname][1]:
                    if np.issubdtype(arr.dtype, np.integer):
                        arr += 1
                        continue
                    arr *= 0.5
                    arr += 0.25
            observe('numpy in-place update of an input array', 'inplace', vname, None, [], f)
        elif op == 'from_vector':
            vbox = []

            def mkv():
                d_ = len(qd)
                k = int(rng.integers(0, 3))
                if k == 0:
                    v = rng.normal(size=d_**L) + (1j * rng.normal(size=d_**L) if rng.random() < 0.5 else 0)
                elif k == 1:
                    v = np.zeros(d_**L)
                    v[0] = 1.0
                    v[-1] = 2.0
                else:
                    v = np.ones(1)
                    for _ in range(L):
                        v = np.kron(v, rng.normal(size=d_))
                    v = v + 1e-3 * rng.normal(size=d_**L)
                vbox.append(np.ascontiguousarray(v))
                return add_obj('vec', [vbox[0]])
            if focus_fv or rng.random() < 0.5:
                vid = observe('numpy vector', 'fresh', None, True, [], mkv)
                if vid:
                    observe('MPS.from_vector', 'fresh', None, True, [vid],
                            lambda: add_obj('mps', ptn.MPS.from_vector(len(qd), L, vbox[0], tol=float(rng.choice([0.0, 0.0, 1e-2, 1e-4])))))
                continue

            def f():
                d_ = len(qd)
                k = int(rng.integers(0, 3))
                if k == 0:
                    v = rng.normal(size=d_**L) + 1j * rng.normal(size=d_**L)
                elif k == 1:        # GHZ-like: exactly vanishing singular values
                    v = np.zeros(d_**L)
                    v[0] = 1.0
                    v[-1] = 2.0
                else:               # weakly entangled: values are discarded for tol > 0
                    v = np.ones(1)
                    for _ in range(L):
                        v = np.kron(v, rng.normal(size=d_))
                    v = v + 1e-3 * rng.normal(size=d_**L)
                return add_obj('mps', ptn.MPS.from_vector(d_, L, v, tol=float(rng.choice([0.0, 1e-2, 1e-4]))))
            observe('MPS.from_vector', 'fresh', None, True, [], f)
        elif op in ('tdvp1', 'tdvp2') and a and w and (op == 'tdvp1' or L >= 2):
            if not np.any(pool[a][1].as_vector()):
                continue
            dt = 0.05j if rng.random() < 0.7 else 0.05
            nit = int(rng.choice([2, 5, 25]))
            if op == 'tdvp1':
                observe('integrate_local_singlesite', 'inplace', a, None, [w], lambda: ptn.integrate_local_singlesite(pool[w][1], pool[a][1], dt, int(rng.integers(1, 3)), numiter_lanczos=nit) and None)
            else:
                tol = float(rng.choice([0.0, 1e-3]))
                observe('integrate_local_twosite', 'inplace', a, None, [w], lambda: ptn.integrate_local_twosite(pool[w][1], pool[a][1], dt, 1, numiter_lanczos=nit, tol_split=tol) and None)
        elif op in ('dmrg1', 'dmrg2') and a and w and L >= 2:
            if not np.any(pool[a][1].as_vector()):
                continue
            nit = int(rng.choice([2, 5, 25]))
            if op == 'dmrg1':
                observe('calculate_ground_state_local_singlesite', 'inplace', a, None, [w], lambda: ptn.calculate_ground_state_local_singlesite(pool[w][1], pool[a][1], 1, numiter_lanczos=nit) is None and None)
            else:
                observe('calculate_ground_state_local_twosite', 'inplace', a, None, [w], lambda: ptn.calculate_ground_state_local_twosite(pool[w][1], pool[a][1], 1, numiter_lanczos=nit, tol_split=float(rng.choice([0.0, 1e-3]))) is None and None)
        elif op == 'graph':
            def mk():
                chains = [ptn.OpChain([int(rng.integers(0, 3)) for _ in range(n)], [0] * (n + 1), float(rng.integers(1, 4)), int(rng.integers(0, L - n + 1)))
                          for n in [int(rng.integers(1, L + 1)) for _ in range(int(rng.integers(1, 4)))]]
                if rng.random() < 0.5:
                    # a sibling chain differing from an existing one on a single site (same coefficient): the compiler merges the
                    # two into one edge carrying several operators
                    c0 = chains[int(rng.integers(len(chains)))]
                    k = int(rng.integers(len(c0.oids)))
                    oids = list(c0.oids)
                    oids[k] = (oids[k] + 1 + int(rng.integers(2))) % 3
                    chains.append(ptn.OpChain(oids, [0] * (len(oids) + 1), c0.coeff, c0.istart))
                return ptn.OpGraph.from_opchains(chains, L, 0)
            if graphs and rng.random() < 0.15:
                # a second graph built with the public constructor from copies of the nodes / edges of an existing one and its
                # list of terminal ids (handed over as the same list object, as a user deriving a variant of a graph would)
                import copy as _copy
                g0 = int(rng.choice(graphs))

                def derived():
                    src = pool[g0][1]
                    return add_obj('graph', ptn.OpGraph(_copy.deepcopy(list(src.nodes.values())), _copy.deepcopy(list(src.edges.values())), src.nid_terminal))
                observe('OpGraph()', 'fresh', None, True, [g0], derived)
            elif graphs and rng.random() < 0.6:
                g1 = int(rng.choice(graphs))
                if rng.random() < 0.5 and len(graphs) >= 2:
                    g2 = int(rng.choice([g for g in graphs if g != g1]))
                    if g2 != g1 and rng.random() < 0.5:
                        # the other graph numbered completely disjointly (ids shifted by the user through the public rename calls)
                        import copy

                        def shifted():
                            h = copy.deepcopy(pool[g2][1])
                            off = 1000 + max([0] + list(pool[g1][1].nodes) + list(pool[g1][1].edges) + list(h.nodes) + list(h.edges))
                            for n_ in sorted(h.nodes, reverse=True):
                                h.rename_node_id(n_, n_ + off)
                            for e_ in sorted(h.edges, reverse=True):
                                h.rename_edge_id(e_, e_ + off)
                            return add_obj('graph', h)
                        g3 = observe('OpGraph copy with shifted ids', 'fresh', None, True, [], shifted)
                        if g3:
                            observe('OpGraph.add', 'inplace', g1, None, [g3], lambda: pool[g1][1].add(pool[g3][1]) and None)
                    elif g2 != g1:
                        observe('OpGraph.add', 'inplace', g1, None, [g2], lambda: pool[g1][1].add(pool[g2][1]) and None)
                else:
                    opmap = {i: rng.normal(size=(len(qd), len(qd))) * np.equal.outer(np.array(qd), np.array(qd)) for i in range(3)}
                    opmap[0] = np.eye(len(qd))
                    # entry types a user may hand over: float, complex (the dtype of the MPO tensors themselves), integer
                    kind = int(rng.integers(3))
                    if kind == 1:
                        opmap = {i: (a * (1 + 0.5j)).astype(complex) for i, a in opmap.items()}
                    elif kind == 2:
                        opmap = {i: np.rint(2 * a).astype(int) for i, a in opmap.items()}
                    vm = observe('numpy operator map', 'fresh', None, True, [], lambda: add_obj('vec', list(opmap.values())))
                    observe('MPO.from_opgraph', 'fresh', None, True, [g1] + ([vm] if vm else []),
                            lambda: add_obj('mpo', ptn.MPO.from_opgraph(qd, pool[g1][1], opmap)))
            else:
                gn = observe('OpGraph.from_opchains', 'fresh', None, True, [], lambda: add_obj('graph', mk()))
                if gn and rng.random() < 0.6:
                    # the documented in-place rewrite: parallel edges become one edge carrying several operators
                    observe('OpGraph.simplify', 'inplace', gn, None, [], lambda: pool[gn][1].simplify() and None)
    return t02, t19
