"""Generators of sector-consistent MPS / MPO and recorders for orthonormalize / compress / from_vector (C01, C13, C02)."""
import numpy as np

from . import wrap
from .observe import OffLattice, snap_array_gauss


# --------------------------------------------------------------------------------------------------- generators
def reach_sets(step_charges, L, q_start):
    """charges reachable at bond i from the left (R[i]) when every site adds one of step_charges"""
    R = [{q_start}]
    for _ in range(L):
        R.append({q + s for q in R[-1] for s in step_charges})
    return R


def gen_charges(rng, L, d, cls, style=None, qd=None, q_start=None, qtot=None, maxD=4, dead=True):
    """returns qd, qD (list of int lists) for a sector-consistent object of the given class"""
    style = style if style is not None else rng.choice(['u1', 'u1', 'u1', 'zero', 'sorted', 'pair', 'disjoint', 'repeated'])
    if qd is not None:
        qd = [int(x) for x in qd]
    elif style == 'zero':
        qd = [0] * d
    elif style == 'pair':        # encoded charge pairs as used by the Fermi-Hubbard / spin-orbital models
        base = [(0, 0), (1, -1), (1, 1), (2, 0)]
        qd = [(a << 16) + b for a, b in (base[k % 4] for k in range(d))]
    elif style == 'repeated':
        qd = [int(rng.integers(0, 2)) for _ in range(d)]
    else:
        qd = [int(x) for x in rng.integers(-1, 2, size=d)]
        if style == 'sorted':
            qd = sorted(qd)
    steps = qd if cls == 'mps' else sorted({a - b for a in qd for b in qd})
    if q_start is None:
        q_start = 0 if rng.random() < 0.7 else int(rng.integers(-1, 2))
    R = reach_sets(steps, L, q_start)
    if qtot is None or qtot not in R[L]:
        qtot = int(rng.choice(sorted(R[L])))
    # co-reachable sets
    C = [None] * (L + 1)
    C[L] = {qtot}
    for i in range(L - 1, -1, -1):
        C[i] = {q - s for q in C[i + 1] for s in steps}
    # a spine: one valid charge path q_start -> qtot, so that the state is not zero by accident
    spine = [q_start]
    for i in range(1, L + 1):
        opts = sorted(q for q in (R[i] & C[i]) if (q - spine[-1]) in set(steps))
        spine.append(int(rng.choice(opts)) if opts else spine[-1])
    qD = [[q_start]]
    for i in range(1, L):
        ok = sorted(R[i] & C[i])
        D = int(rng.integers(1, maxD + 1))
        if style == 'disjoint' and rng.random() < 0.5:
            qb = [int(max(R[i]) + 7 + k) for k in range(D)]          # unreachable charges: the zero state
        else:
            qb = [int(rng.choice(ok)) for _ in range(D)]
            qb[int(rng.integers(D))] = spine[i]
            if dead and rng.random() < 0.2:
                qb[int(rng.integers(D))] = int(max(R[i]) + 5)        # one dead bond state
            if style == 'sorted':
                qb = sorted(qb)
        qD.append(qb)
    qD.append([qtot])
    return qd, qD


def make_object(ptn, rng, cls, qd, qD, entries):
    """entries: 'complex' | 'real' | 'int' | 'gauss' | 'ones' | 'zeros'"""
    ctor = ptn.MPS if cls == 'mps' else ptn.MPO
    if entries == 'ones':
        return ctor(qd, qD, fill=1)
    if entries == 'zeros':
        return ctor(qd, qD, fill=0.0)
    obj = ctor(qd, qD, fill='random', rng=rng)
    for i in range(len(obj.A)):
        m = obj.A[i] != 0
        if entries == 'real':
            obj.A[i] = np.where(m, rng.normal(size=obj.A[i].shape), 0.0)
        elif entries == 'int':
            obj.A[i] = np.where(m, rng.integers(-2, 3, size=obj.A[i].shape), 0).astype(np.int64)
        elif entries == 'gauss':
            obj.A[i] = np.where(m, rng.integers(-2, 3, size=obj.A[i].shape) + 1j * rng.integers(-2, 3, size=obj.A[i].shape), 0)
    return obj


def dense(obj, cls):
    return np.asarray(obj.as_vector() if cls == 'mps' else obj.as_matrix()).reshape(-1)


def phys_vector(cls, qd):
    qd = [int(x) for x in qd]
    return qd if cls == 'mps' else [a - b for a in qd for b in qd]


# --------------------------------------------------------------------------------------------------- own checks
def sparse_ok(A, legs):
    mask = 0
    for q in legs:
        mask = np.add.outer(mask, np.asarray(q))
    return not np.any(np.where(mask == 0, 0, A))


def site_legs(cls, qd, ql, qr):
    qd = np.asarray(qd)
    return [qd, np.asarray(ql), -np.asarray(qr)] if cls == 'mps' else [qd, -qd, np.asarray(ql), -np.asarray(qr)]


def iso_defect(A, cls, direction):
    A = np.asarray(A)
    if cls == 'mps':
        M = A.reshape((-1, A.shape[2])) if direction == 'left' else A.transpose((0, 2, 1)).reshape((-1, A.shape[1]))
    else:
        M = A.reshape((-1, A.shape[3])) if direction == 'left' else A.transpose((0, 1, 3, 2)).reshape((-1, A.shape[2]))
    return float(np.linalg.norm(M.conj().T @ M - np.eye(M.shape[1])))


def pair_product(cls, A, B):
    if cls == 'mps':
        return np.tensordot(A, B, axes=(2, 1))
    return np.tensordot(A, B, axes=(3, 2))


def all_sparse(obj, cls):
    try:
        return all(sparse_ok(obj.A[i], site_legs(cls, obj.qd, obj.qD[i], obj.qD[i + 1])) for i in range(len(obj.A)))
    except Exception:
        return False


def types_ok(obj, cls):
    bd = 1 if cls == 'mps' else 2
    try:
        return bool(isinstance(obj.qd, np.ndarray) and all(isinstance(q, np.ndarray) and q.ndim == 1 for q in obj.qD)
                    and all(obj.A[i].shape[bd] == len(obj.qD[i]) and obj.A[i].shape[bd + 1] == len(obj.qD[i + 1])
                            for i in range(len(obj.A)))
                    and all(np.issubdtype(a.dtype, np.inexact) for a in obj.A))
    except Exception:
        return False


# --------------------------------------------------------------------------------------------------- recorders
def _local_wrappers(ptn, obj, cls, tr):
    mod = ptn.mps if cls == 'mps' else ptn.mpo
    names = ['local_orthonormalize_left_qr', 'local_orthonormalize_right_qr']
    if cls == 'mps':
        names += ['local_orthonormalize_left_svd', 'local_orthonormalize_right_svd']

    def factory(name):
        direction = 'left' if '_left_' in name else 'right'
        kind = 'qr' if name.endswith('_qr') else 'svd'

        def mk(orig):
            def wrapped(A, B, qd, qD, *rest):
                site = next((i for i, a in enumerate(obj.A) if a is A), None)
                out = orig(A, B, qd, qD, *rest)
                try:
                    An, Bn, qb = out
                    qb = np.asarray(qb)
                    ql, qr_ = (np.asarray(qD[0]), qb) if direction == 'left' else (qb, np.asarray(qD[1]))
                    scale = max(1.0, float(np.linalg.norm(A)) * max(1.0, float(np.linalg.norm(B))))
                    if direction == 'left':
                        p_old, p_new = pair_product(cls, A, B), pair_product(cls, An, Bn)
                    else:
                        p_old, p_new = pair_product(cls, B, A), pair_product(cls, Bn, An)
                    tol = float(rest[0]) if rest else 0.0
                    pair_ok = bool(np.linalg.norm(p_new - p_old) <= 1e-10 * scale) if (kind == 'qr' or tol == 0) else True
                    tr.append(dict(ev='step', kind=kind, dir=direction, site=(site + 1) if site is not None else -1,
                                   qbond=[int(x) for x in qb.reshape(-1)],
                                   iso_ok=bool(iso_defect(An, cls, direction) <= 1e-10),
                                   sparse_ok=bool(sparse_ok(An, site_legs(cls, qd, ql, qr_))),
                                   pair_ok=pair_ok))
                except Exception as ex:  # noqa
                    tr.append(dict(ev='raise', exc=f'observer: {type(ex).__name__}: {str(ex)[:60]}'))
                return out
            return wrapped
        return mk
    return [(mod, n, factory(n)) for n in names]


def record_canon(ptn, obj, cls, op, mode, tn=0, td=1, want_exact=True):
    """run obj.orthonormalize(mode) or obj.compress(tol, mode) and record the trace"""
    L = len(obj.A)
    tol = tn / td
    qd0 = [int(x) for x in obj.qd]
    qD0 = [[int(x) for x in q] for q in obj.qD]
    tr = [dict(ev='begin', cls=cls, op=op, mode=mode, L=L, phys=phys_vector(cls, qd0), qD=qD0, tn=tn, td=td)]
    try:
        v_old = dense(obj, cls)
        with wrap.patched(*_local_wrappers(ptn, obj, cls, tr), trace=tr) as missing:
            if op == 'ortho':
                nrm = obj.orthonormalize(mode=mode)
                scale = 1.0
            else:
                nrm, scale = obj.compress(tol, mode=mode)
        v_new = dense(obj, cls)
        n_old = float(np.linalg.norm(v_old))
        is_zero = n_old == 0.0
        ref = max(1.0, n_old)
        nrm_f, scale_f = float(np.real(nrm)), float(np.real(scale))
        dims = [int(x) for x in obj.bond_dims]
        bd = len(obj.qd) if cls == 'mps' else len(obj.qd)**2
        if op == 'ortho' and mode == 'left' or op == 'compress' and mode == 'left':
            neigh = all(dims[i] <= bd * dims[i - 1] for i in range(1, L + 1))
        else:
            neigh = all(dims[i - 1] <= bd * dims[i] for i in range(1, L + 1))
        end = dict(ev='end', qD=[[int(x) for x in np.asarray(q).reshape(-1)] for q in obj.qD], dims=dims, is_zero=bool(is_zero),
                   hooks_missing=bool(missing),
                   nrm_nonneg=bool(nrm_f >= 0 and abs(np.imag(nrm)) == 0),
                   nrm_ok=bool(abs(nrm_f - n_old) <= 1e-10 * ref),
                   unit_ok=bool(is_zero or abs(float(np.linalg.norm(v_new)) - 1.0) <= 1e-10),
                   forms_ok=bool(all(iso_defect(obj.A[i], cls, mode) <= 1e-10 for i in range(L))),
                   sparse_ok=bool(all_sparse(obj, cls)), types_ok=bool(types_ok(obj, cls)), neighbour_ok=bool(neigh),
                   exact=False)
        if op == 'ortho':
            end['state_ok'] = bool(np.linalg.norm(nrm_f * v_new - v_old) <= 1e-10 * ref)
        else:
            diff2 = float(np.linalg.norm(nrm_f * scale_f * v_new - v_old))**2
            lo = np.sqrt(max(0.0, 1.0 - L * tol))
            end['scale_ok'] = bool(is_zero or (lo - 1e-12 <= scale_f <= 1.0 + 1e-12))
            end['err_ok'] = bool(is_zero or abs(diff2 - n_old**2 * (1.0 - scale_f**2)) <= 1e-10 * ref**2)
            end['state_ok'] = bool(is_zero or np.sqrt(diff2) <= n_old * np.sqrt(L * tol) + 1e-9 * ref)
        if want_exact and op == 'ortho':
            try:
                go = snap_array_gauss(v_old, 'v_old')
                gn = snap_array_gauss(nrm_f * v_new, 'nrm*v_new')
                n2 = int(round(n_old**2))
                if abs(n_old**2 - n2) < 1e-6 and n2 < 2**30:
                    end.update(exact=True, v_old=go, v_new_scaled=gn, nrm2=int(round(nrm_f**2)) if abs(nrm_f**2 - round(nrm_f**2)) < 1e-6 else -1)
            except OffLattice:
                pass
        tr.append(end)
    except BaseException as ex:  # noqa
        tr.append(dict(ev='raise', exc=f'{type(ex).__name__}: {str(ex)[:80]}'))
    return tr


def poke(obj, rng, tr, how=None):
    """a user modification of one site tensor between two calls on the same object (keeps the sparsity pattern and the charges)"""
    i = int(rng.integers(len(obj.A)))
    how = how or str(rng.choice(['assign', 'inplace', 'assign_all', 'nearly']))
    if how == 'nearly':
        # leaves an (already canonical) object nearly but not exactly canonical: a norm drift of a few 1e-6 and noise of 1e-9
        obj.A[i] = obj.A[i] * (1.0 + 3e-6) + 2e-9 * np.where(obj.A[i] != 0, rng.normal(size=obj.A[i].shape), 0.0)
    elif how == 'assign':
        obj.A[i] = obj.A[i] * rng.integers(1, 4, size=obj.A[i].shape)
    elif how == 'inplace':
        obj.A[i] *= 3
    else:
        for k in range(len(obj.A)):
            obj.A[k] = obj.A[k] * rng.integers(1, 3, size=obj.A[k].shape)
    tr.append(dict(ev='poke', site=i + 1, how=how))


def relax(trace):
    """results-only view of a TraceCanon trace (pass 2 of parallel.validate_chunks): the local factorization events are removed"""
    out = []
    for r in trace:
        if r.get('ev') == 'step':
            continue
        out.append(dict(r, hooks_missing=True) if r.get('ev') == 'end' else r)
    return out
