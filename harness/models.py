"""The built-in Hamiltonian constructors of pytenet as a table: how to call them with integer parameters, the local
dimension, the scale that makes the dense operator integer valued, and the per-site similarity weights that turn
square-root matrix elements (spin-1, bosons) into integers without changing any rank or equality."""
import math

import numpy as np


def _site_weights(model, d):
    if model == 'bose':
        return [math.sqrt(math.factorial(n)) for n in range(d)]
    if model == 'xxz1':
        # S+ = sqrt2 * E:  w = (2, sqrt2, 1) makes  w_s/w_t * S+[s,t]  and  S-  integer
        return [2.0, math.sqrt(2.0), 1.0]
    return [1.0] * d


MODELS = {
    # name: (local dimension (or None if parameter), number of real parameters, dense scale)
    'ising': dict(d=2, npar=3, scale=1),
    'xxz': dict(d=2, npar=3, scale=4),
    'xxz1': dict(d=3, npar=3, scale=1),
    'bose': dict(d=None, npar=3, scale=2),
    'fermi_hubbard': dict(d=4, npar=3, scale=4),
}


def build(ptn, model, L, params, d=None):
    if model == 'ising':
        return ptn.ising_mpo(L, *[float(p) for p in params])
    if model == 'xxz':
        return ptn.heisenberg_xxz_mpo(L, *[float(p) for p in params])
    if model == 'xxz1':
        return ptn.heisenberg_xxz_spin1_mpo(L, *[float(p) for p in params])
    if model == 'bose':
        return ptn.bose_hubbard_mpo(d, L, *[float(p) for p in params])
    if model == 'fermi_hubbard':
        return ptn.fermi_hubbard_mpo(L, *[float(p) for p in params])
    raise ValueError(model)


def local_dim(model, d=None):
    return d if model == 'bose' else MODELS[model]['d']


def similarity_dense(H, model, d, L):
    """S H S^-1 with S the L-fold tensor power of diag(site weights)"""
    w1 = np.array(_site_weights(model, d))
    w = np.ones(1)
    for _ in range(L):
        w = np.kron(w, w1)
    return H * (w[:, None] / w[None, :])


def similarity_tensor(A, model, d):
    """the same transformation applied to one MPO tensor (physical legs 0 and 1)"""
    w1 = np.array(_site_weights(model, d))
    return A * (w1[:, None, None, None] / w1[None, :, None, None])


def cut_matrix(H, d, L, a):
    """reshape the dense operator across the cut after site a (1 <= a <= L-1)"""
    T = np.asarray(H).reshape((d**a, d**(L - a), d**a, d**(L - a)))
    return T.transpose((0, 2, 1, 3)).reshape((d**(2 * a), d**(2 * (L - a))))


def prune(M):
    M = M[np.any(M != 0, axis=1)]
    if M.size:
        M = M[:, np.any(M != 0, axis=0)]
    if M.size == 0:
        return np.zeros((0, 0), dtype=np.int64)
    M = np.unique(M, axis=0)
    return M


def rank_exact(M):
    """exact rank over Q of an integer matrix (Bareiss fraction-free elimination on Python ints)"""
    rows = [[int(x) for x in r] for r in np.asarray(M).tolist()]
    if not rows:
        return 0
    ncols = len(rows[0])
    rank = 0
    prev = 1
    r = 0
    for c in range(ncols):
        piv = next((i for i in range(r, len(rows)) if rows[i][c] != 0), None)
        if piv is None:
            continue
        rows[r], rows[piv] = rows[piv], rows[r]
        p = rows[r][c]
        for i in range(r + 1, len(rows)):
            f = rows[i][c]
            if f != 0 or True:
                ri, rr = rows[i], rows[r]
                rows[i] = [(p * ri[j] - f * rr[j]) // prev for j in range(ncols)]
        prev = p
        r += 1
        rank += 1
        if r == len(rows):
            break
    return rank
