"""Projection functions: real pytenet objects -> the abstract state the specifications talk about (JSON-able)."""
import hashlib

import numpy as np


class OffLattice(Exception):
    """A value that must be exactly representable (integer / Gaussian integer after scaling) is not."""


def snap_int(x, tol=1e-9, what='value'):
    if isinstance(x, (int, np.integer)):
        v = int(x)
    else:
        xc = complex(x)
        if abs(xc.imag) > tol:
            raise OffLattice(f'{what}: {x!r} has an imaginary part')
        r = round(xc.real)
        if abs(xc.real - r) > tol * max(1.0, abs(xc.real)):
            raise OffLattice(f'{what}: {x!r} is not an integer')
        v = int(r)
    if abs(v) >= 2**30:
        raise OffLattice(f'{what}: {x!r} exceeds the 32-bit range of TLC')
    return v


def snap_gauss(x, tol=1e-9, what='value'):
    xc = complex(x)
    re, im = round(xc.real), round(xc.imag)
    if abs(xc.real - re) > tol * max(1.0, abs(xc)) or abs(xc.imag - im) > tol * max(1.0, abs(xc)):
        raise OffLattice(f'{what}: {x!r} is not a Gaussian integer')
    if abs(re) >= 2**30 or abs(im) >= 2**30:
        raise OffLattice(f'{what}: {x!r} exceeds the 32-bit range of TLC')
    return [int(re), int(im)]


def snap_array_int(a, what='array'):
    a = np.asarray(a)
    r = np.rint(a.real)
    if np.iscomplexobj(a) and np.max(np.abs(a.imag), initial=0) > 1e-9:
        raise OffLattice(f'{what}: imaginary parts present')
    if np.max(np.abs(a.real - r), initial=0) > 1e-9 * max(1.0, float(np.max(np.abs(a), initial=0))):
        raise OffLattice(f'{what}: entries are not integers (max deviation {np.max(np.abs(a.real - r))})')
    if np.max(np.abs(r), initial=0) >= 2**30:
        raise OffLattice(f'{what}: entries exceed the 32-bit range of TLC')
    return r.astype(np.int64).tolist()


def snap_array_gauss(a, what='array'):
    """complex array -> nested lists whose leaves are [re, im] integer pairs"""
    a = np.asarray(a, dtype=complex)
    re, im = np.rint(a.real), np.rint(a.imag)
    scale = max(1.0, float(np.max(np.abs(a), initial=0)))
    if np.max(np.abs(a.real - re), initial=0) > 1e-9 * scale or np.max(np.abs(a.imag - im), initial=0) > 1e-9 * scale:
        raise OffLattice(f'{what}: entries are not Gaussian integers')
    if max(np.max(np.abs(re), initial=0), np.max(np.abs(im), initial=0)) >= 2**30:
        raise OffLattice(f'{what}: entries exceed the 32-bit range of TLC')
    return np.stack([re, im], axis=-1).astype(np.int64).tolist()


def digest_arrays(arrs):
    h = hashlib.sha256()
    for a in arrs:
        a = np.ascontiguousarray(a)
        h.update(str(a.dtype).encode() + str(a.shape).encode())
        h.update(a.tobytes())
    return h.hexdigest()[:20]


# ---------------------------------------------------------------------------------------------- operator graphs
def graph_json(g):
    nodes = []
    for key in sorted(g.nodes):
        nd = g.nodes[key]
        nodes.append(dict(key=int(key), id=int(nd.nid), q=int(nd.qnum),
                          ein=[int(e) for e in nd.eids[0]], eout=[int(e) for e in nd.eids[1]]))
    edges = []
    for key in sorted(g.edges):
        ed = g.edges[key]
        edges.append(dict(key=int(key), id=int(ed.eid), src=int(ed.nids[0]), dst=int(ed.nids[1]),
                          ops=[[int(i), snap_int(c, what=f'coefficient of edge {key}')] for i, c in ed.opics]))
    return dict(nodes=nodes, edges=edges, term=[int(g.nid_terminal[0]), int(g.nid_terminal[1])])


def build_graph(ptn, j):
    """JSON graph -> real OpGraph (ids, list orders and coefficients exactly as given)."""
    og = ptn.opgraph
    nodes = [og.OpGraphNode(n['id'], list(n['ein']), list(n['eout']), n['q']) for n in j['nodes']]
    edges = [og.OpGraphEdge(e['id'], [e['src'], e['dst']], [(o, float(c)) for o, c in e['ops']]) for e in j['edges']]
    return og.OpGraph(nodes, edges, list(j['term']))
