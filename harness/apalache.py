"""Apalache (symbolic model checker) driver for the few specifications small enough for it: inductive invariants."""
import os
import shutil
import subprocess
import time

SPEC = os.path.join(os.path.dirname(os.path.dirname(os.path.abspath(__file__))), 'spec')


def available():
    return shutil.which('apalache-mc') is not None


def check(module, init, inv, length, workdir, timeout=900):
    """returns ('NoError' | 'Error' | 'unknown: ...', wall seconds)"""
    out = os.path.join(workdir, f'apa_{module}_{init}_{inv}')
    os.makedirs(out, exist_ok=True)
    t0 = time.time()
    try:
        p = subprocess.run(['apalache-mc', 'check', f'--init={init}', f'--inv={inv}', f'--length={length}', f'--out-dir={out}',
                            f'{module}.tla'], cwd=SPEC, stdout=subprocess.PIPE, stderr=subprocess.STDOUT, text=True, timeout=timeout)
        text = p.stdout
    except subprocess.TimeoutExpired:
        return 'unknown: timeout', time.time() - t0
    finally:
        shutil.rmtree(out, ignore_errors=True)
    if 'The outcome is: NoError' in text:
        return 'NoError', time.time() - t0
    if 'The outcome is: Error' in text:
        return 'Error', time.time() - t0
    return 'unknown: ' + text[-300:].replace('\n', ' '), time.time() - t0
