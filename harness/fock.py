"""Independent Fock-space reference for fermionic operators: creation / annihilation operators act on occupation-number
configurations (mode 0 most significant bit), Jordan-Wigner sign = parity of the occupied modes with larger index.
Mirrors Hamiltonian.tla (ApplyOp / FermMatrix); used for sizes beyond TLC's reach, with exact integer / Gaussian-integer
arithmetic in numpy."""
import numpy as np


def apply_ops(ops, occ):
    """ops[0] is the leftmost operator; returns (sign, occ') or (0, None)"""
    occ = list(occ)
    sign = 1
    for kind, m in reversed(ops):
        if kind == 'c':
            if occ[m]:
                return 0, None
        else:
            if not occ[m]:
                return 0, None
        if sum(occ[m + 1:]) % 2:
            sign = -sign
        occ[m] = 1 if kind == 'c' else 0
    return sign, occ


def fock_matrix(terms, nm):
    dim = 1 << nm
    H = np.zeros((dim, dim), dtype=complex)
    for y in range(dim):
        occ = [(y >> (nm - 1 - m)) & 1 for m in range(nm)]
        for c, ops in terms:
            s, o2 = apply_ops(ops, occ)
            if s:
                x = 0
                for b in o2:
                    x = (x << 1) | b
                H[x, y] += s * c
    return H


def mol_terms(tk, vi):
    n = tk.shape[0]
    ts = []
    for i in range(n):
        for j in range(n):
            if tk[i, j] != 0:
                ts.append((tk[i, j], [('c', i), ('a', j)]))
    for i in range(n):
        for j in range(n):
            for k in range(n):
                for l in range(n):
                    if vi[i, j, k, l] != 0 and i != j and k != l:
                        ts.append((0.5 * vi[i, j, k, l], [('c', i), ('c', j), ('a', l), ('a', k)]))
    return ts


def spinmol_terms(tk, vi):
    n = tk.shape[0]
    m = lambda p, s: 2 * p + s
    ts = []
    for i in range(n):
        for j in range(n):
            if tk[i, j] != 0:
                for s in (0, 1):
                    ts.append((tk[i, j], [('c', m(i, s)), ('a', m(j, s))]))
    for i in range(n):
        for j in range(n):
            for k in range(n):
                for l in range(n):
                    if vi[i, j, k, l] == 0:
                        continue
                    for s in (0, 1):
                        for u in (0, 1):
                            if m(i, s) != m(j, u) and m(k, s) != m(l, u):
                                ts.append((0.5 * vi[i, j, k, l], [('c', m(i, s)), ('c', m(j, u)), ('a', m(l, u)), ('a', m(k, s))]))
    return ts
