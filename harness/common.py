"""Check context: tiers, seeds, evidence, violations, known findings, TLC bookkeeping."""
import hashlib
import json
import os
import shutil
import sys
import time
import traceback

from . import tlc

VERIF = os.path.dirname(os.path.dirname(os.path.abspath(__file__)))
REPO = os.environ.get('VERIF_REPO', '/repo')
GUARD = 'PYTENET_VERIF'
# evidence / replay files go to /verif unless a mutant runner redirects them (tools/try_mutant_wt.sh)
OUT = os.environ.get('VERIF_OUT', VERIF)


class SpecError(Exception):
    """The model itself violates one of its invariants (machinery / design problem, never blamed on the code)."""


def import_repo():
    os.environ[GUARD] = '1'
    if REPO not in sys.path:
        sys.path.insert(0, REPO)
    import warnings
    warnings.filterwarnings('ignore', category=SyntaxWarning)
    import pytenet  # noqa
    if not os.path.abspath(pytenet.__file__).startswith(os.path.abspath(REPO)):
        raise RuntimeError(f'pytenet imported from {pytenet.__file__}, expected {REPO}')
    return pytenet


def _json_default(o):
    """numpy scalars that slipped into a trace record (integers, booleans, floats) are written as their Python values"""
    import numpy as np
    if isinstance(o, np.integer):
        return int(o)
    if isinstance(o, np.bool_):
        return bool(o)
    if isinstance(o, np.floating):
        return float(o)
    raise TypeError(f'Object of type {o.__class__.__name__} is not JSON serializable')


def digest(obj):
    return hashlib.sha256(json.dumps(obj, sort_keys=True, default=str).encode()).hexdigest()[:16]


def load_known():
    p = os.path.join(VERIF, 'known_findings.json')
    if not os.path.exists(p):
        return []
    with open(p) as f:
        return json.load(f).get('findings', [])


class Ctx:
    def __init__(self, pid, tier='quick', seed=0, level='model_checking'):
        self.pid = pid
        self.tier = tier
        self.seed = seed
        self.level = level
        self.t0 = time.time()
        self.work = os.path.join(VERIF, '.work', f'{pid}-{tier}-{os.getpid()}')
        shutil.rmtree(self.work, ignore_errors=True)
        os.makedirs(self.work, exist_ok=True)
        self.states = 0
        self.transitions = 0
        self.tlc_runs = []
        self.traces = 0
        self.evaluations = 0
        self.distinct = set()
        self.samples = []
        self.violations = []
        self.known_hits = []
        self.notes = {}
        self.assumptions = []
        self.coverage_actions = {}
        self.rule = ''
        self.explanation = ''
        self.exhaustive = None
        self.known = [k for k in load_known() if k.get('property') == pid]

    # ------------------------------------------------------------------ helpers
    @property
    def quick(self):
        return self.tier == 'quick'

    def pick(self, quick, thorough):
        return quick if self.quick else thorough

    def log(self, *a):
        print(f'[{self.pid} {time.time()-self.t0:6.1f}s]', *a, flush=True)

    def sample(self, obj, limit=6):
        if len(self.samples) < limit:
            self.samples.append(obj)

    def count(self, key_obj, nontrivial=True):
        self.evaluations += 1
        if nontrivial:
            self.distinct.add(digest(key_obj))

    # ------------------------------------------------------------------ TLC
    def _account(self, tag, module, r, kind):
        self.states += r.distinct
        self.transitions += r.generated
        d = dict(tag=tag, module=module, kind=kind, **r.summary())
        self.tlc_runs.append(d)
        for k, v in r.coverage.items():
            self.coverage_actions[f'{module}.{k}'] = self.coverage_actions.get(f'{module}.{k}', 0) + v

    def model(self, module, tag, expect_violation=None, **kw):
        """Exhaustive / simulated check of the specification itself (mode M)."""
        kw.setdefault('workers', 'auto')
        r = tlc.run(module, self.work, tag, **kw)
        self._account(tag, module, r, 'model')
        if expect_violation is not None:
            if r.violated != expect_violation:
                raise SpecError(f'{module}/{tag}: negative control expected violation of {expect_violation}, got {r.violated}')
            self.log(f'model {module}/{tag}: negative control violated {r.violated} as expected '
                     f'({r.distinct} states, {r.wall:.1f}s)')
            return r
        if not r.ok:
            raise SpecError(f'{module}/{tag}: specification violates {r.violated}; see {self.work}/{tag}.out')
        self.log(f'model {module}/{tag}: ok, {r.distinct} distinct / {r.generated} generated states, {r.wall:.1f}s')
        return r

    def validate(self, module, tag, data, n_traces, env=None, timeout=900, **kw):
        """Trace validation (code -> spec).  data is JSON-serialisable and handed to the trace spec via TRACE_FILE.
        The trace spec must keep the set of accepted trace ids in TLC register 1, print <<"DONE", thatset>> from
        its POSTCONDITION, and print <<"REJECT", tid, l, ev, clause>> when it gives up on a trace.
        Returns dict tid -> list of reject diagnostics for the traces that were not accepted."""
        path = os.path.join(self.work, f'{tag}.json')
        with open(path, 'w') as f:
            json.dump(data, f, default=_json_default)
        e = dict(env or {})
        e['TRACE_FILE'] = path
        kw.setdefault('spec', 'TraceSpec')
        kw.setdefault('postcondition', 'TraceDone')
        r = tlc.run(module, self.work, tag, env=e, workers=1, dfs=True, timeout=timeout, **kw)
        self._account(tag, module, r, 'trace')
        if not r.ok:
            raise tlc.TlcMachineryError(f'{module}/{tag}: trace validation run failed ({r.violated}); see {self.work}/{tag}.out')
        accepted = None
        rejects = {}
        for p in r.prints:
            if isinstance(p, list) and p and p[0] == 'DONE':
                acc = p[1]
                accepted = set(acc[1]) if isinstance(acc, tuple) else set(acc)
            elif isinstance(p, list) and p and p[0] == 'REJECT':
                rejects.setdefault(p[1], []).append(p[2:])
        if accepted is None:
            raise tlc.TlcMachineryError(f'{module}/{tag}: no DONE line in TLC output; see {self.work}/{tag}.out')
        bad = {}
        for tid in range(1, n_traces + 1):
            if tid not in accepted:
                bad[tid] = rejects.get(tid, [['?', '?', 'not fully consumed']])
        self.traces += n_traces
        self.log(f'trace {module}/{tag}: {n_traces - len(bad)}/{n_traces} traces accepted, '
                 f'{r.distinct} states, {r.wall:.1f}s')
        return bad

    # ------------------------------------------------------------------ verdicts
    def deviation(self, clause):
        """The implementation deviates from the specification in a clause the property does not demand (see
        parallel.validate_chunks): reported, never fatal."""
        d = self.notes.setdefault('spec_deviations', {})
        d[clause] = d.get(clause, 0) + 1
        if d[clause] == 1:
            print(f'SPEC-DEVIATION property={self.pid} {clause} (property clauses hold on that trace; not a violation)', flush=True)

    def violation(self, key, desc, replay_obj):
        """Record a violation.  key identifies the failing input / call site for the known-findings file."""
        for k in self.known:
            if k.get('status') == 'known' and k.get('key') == key:
                if key not in self.known_hits:
                    self.known_hits.append(key)
                    print(f'KNOWN-FINDING: property={self.pid} {k.get("what", key)}', flush=True)
                return
        os.makedirs(os.path.join(OUT, 'replays'), exist_ok=True)
        path = os.path.join(OUT, 'replays', f'{self.pid}-{digest([key, desc, replay_obj])}.json')
        with open(path, 'w') as f:
            json.dump(dict(property=self.pid, key=key, desc=desc, replay=replay_obj), f)
        self.violations.append((key, desc, path))
        if len(self.violations) <= 20:
            print(f'VIOLATION property={self.pid} replay={path}', flush=True)
            print(f'  detail: {key}: {desc}', flush=True)

    def finish(self):
        wall = time.time() - self.t0
        cov = dict(states=max(self.states, 0), transitions=max(self.transitions, 0),
                   traces_validated_against_impl=self.traces,
                   samples=self.samples[:8] or ['(none)'],
                   evaluations=self.evaluations, distinct_nontrivial=len(self.distinct),
                   rule=self.rule, tlc_runs=self.tlc_runs,
                   action_coverage=self.coverage_actions,
                   known_findings_printed=self.known_hits)
        if self.explanation:
            cov['explanation'] = self.explanation
        if self.exhaustive is not None:
            cov['exhaustive'] = self.exhaustive
        self.notes.setdefault('spec_deviations', {})
        cov.update(self.notes)
        cov['repo_root'] = REPO
        ev = dict(property_id=self.pid, tier=self.tier, seed=self.seed, level=self.level, coverage=cov,
                  assumptions=self.assumptions, wall_s=round(wall, 2), violations=len(self.violations))
        os.makedirs(os.path.join(OUT, 'evidence'), exist_ok=True)
        with open(os.path.join(OUT, 'evidence', f'{self.pid}.json'), 'w') as f:
            json.dump(ev, f, indent=1, default=str)
        # the latest run of either tier is evidence/<id>.json; a copy per tier is kept next to it
        os.makedirs(os.path.join(OUT, 'evidence', 'by_tier'), exist_ok=True)
        with open(os.path.join(OUT, 'evidence', 'by_tier', f'{self.pid}.{self.tier}.json'), 'w') as f:
            json.dump(ev, f, indent=1, default=str)
        shutil.rmtree(self.work, ignore_errors=True)
        self.log(f'done: {len(self.violations)} violation(s), {self.states} states, {self.traces} traces, '
                 f'{self.evaluations} evaluations, {wall:.1f}s')
        return 1 if self.violations else 0


def run_check(pid, fn, tier, seed, level='model_checking', replay=None):
    ctx = Ctx(pid, tier, seed, level)
    try:
        if replay is not None:
            with open(replay) as f:
                ctx.replay = json.load(f)
        else:
            ctx.replay = None
        fn(ctx)
        return ctx.finish()
    except (tlc.TlcMachineryError, SpecError) as ex:
        print(f'MACHINERY-FAILURE property={pid}: {ex}', flush=True)
        return 2
    except Exception:
        traceback.print_exc()
        print(f'MACHINERY-FAILURE property={pid}: unexpected exception in harness', flush=True)
        return 2
