"""Recorders for TDVP and DMRG runs (C08, C09, C10, C02): every local problem is observed through wrappers on the private
helpers of evolution.py / minimization.py; site indices, environment lists and the outer time step are read from the
caller's frame (no source change)."""
import sys
import warnings

import numpy as np

from . import wrap, canon, models
from .observe import digest_arrays


# --------------------------------------------------------------------------------------------------- inputs
def count_paths(qd, n):
    """number of configurations of n sites reaching each charge (dict charge -> count)"""
    cur = {0: 1}
    for _ in range(n):
        nxt = {}
        for q, c in cur.items():
            for s in qd:
                nxt[q + s] = nxt.get(q + s, 0) + c
        cur = nxt
    return cur


def full_bond_charges(qd, L, qtot, cap=64):
    """bond charges for which the MPS manifold is the whole sector of total charge qtot (leading charge 0):
    multiplicity of q at bond i = min(#left configurations reaching q, #right configurations completing q to qtot)"""
    qd = [int(x) for x in qd]
    out = [[0]]
    for i in range(1, L):
        left = count_paths(qd, i)
        right = count_paths(qd, L - i)
        qb = []
        for q in sorted(left):
            r = right.get(qtot - q, 0)
            qb += [q] * min(left[q], r, cap)
        out.append(qb)
    out.append([int(qtot)])
    return out


def mixed_completeness(qd, L, qtot):
    """True if at some bond the block of one charge is limited by the left space and the block of another charge by the right
    space (then no single side of the bond has a complete basis, unlike the case without quantum numbers)"""
    qd = [int(x) for x in qd]
    for i in range(1, L):
        left = count_paths(qd, i)
        right = count_paths(qd, L - i)
        lt = gt = False
        for q in left:
            r = right.get(qtot - q, 0)
            if r == 0:
                continue
            lt = lt or left[q] < r
            gt = gt or left[q] > r
        if lt and gt:
            return True
    return False


def hermitian_random_mpo(ptn, rng, L, d, D=2):
    qd = [0] * d
    X = ptn.MPO(qd, [[0]] + [[0] * D for _ in range(L - 1)] + [[0]], fill='random', rng=rng)
    Xd = ptn.MPO(qd, [q.tolist() for q in X.qD], fill='postpone')
    Xd.A = [a.conj().transpose((1, 0, 2, 3)) for a in X.A]
    H = X + Xd
    for a in H.A:
        a *= 1.5
    return H


def make_hamiltonian(ptn, rng, L, kind):
    if kind == 'xxz':
        return ptn.heisenberg_xxz_mpo(L, float(rng.uniform(-1, 1)) or 0.5, float(rng.uniform(-1, 1)), float(rng.uniform(-0.5, 0.5)))
    if kind == 'ising':
        return ptn.ising_mpo(L, float(rng.uniform(-1, 1)), float(rng.uniform(-1, 1)), float(rng.uniform(-1, 1)) or 0.3)
    if kind == 'bose':
        return ptn.bose_hubbard_mpo(int(rng.integers(2, 4)), L, float(rng.uniform(0.2, 1)), float(rng.uniform(-1, 1)), float(rng.uniform(-0.5, 0.5)))
    if kind == 'fermi_hubbard':
        return ptn.fermi_hubbard_mpo(L, float(rng.uniform(0.2, 1)), float(rng.uniform(-1, 1)), float(rng.uniform(-0.5, 0.5)))
    if kind == 'xxz1':
        return ptn.heisenberg_xxz_spin1_mpo(L, float(rng.uniform(-1, 1)) or 0.5, float(rng.uniform(-1, 1)), float(rng.uniform(-0.5, 0.5)))
    if kind == 'complex':      # Hermitian with genuinely complex tensors (random X + X^dagger)
        return hermitian_random_mpo(ptn, rng, L, int(rng.integers(2, 4)))
    raise ValueError(kind)


def product_state_on(ptn, rng, psi):
    """overwrite psi (all-zero charges) by a generic product state stored zero-padded in the same bond spaces (every bond has
    Schmidt rank one although its dimension is larger)"""
    if any(int(x) != 0 for x in psi.qd) or any(int(x) != 0 for q in psi.qD for x in q):
        return False
    for i in range(psi.nsites):
        A = np.zeros_like(psi.A[i], dtype=complex)
        A[:, 0, 0] = rng.normal(size=A.shape[0]) + 1j * rng.normal(size=A.shape[0])
        psi.A[i] = A
    return True


def basis_state_on(ptn, rng, psi):
    """overwrite psi (given charges) by one computational basis state of its sector embedded in the same bond spaces"""
    L = psi.nsites
    qd = [int(x) for x in psi.qd]
    qtot = int(psi.qD[-1][0] - psi.qD[0][0])
    # choose a configuration with the right total charge by a random walk constrained to co-reachable charges
    for _try in range(200):
        cfg = [int(rng.integers(len(qd))) for _ in range(L)]
        if sum(qd[s] for s in cfg) == qtot:
            break
    else:
        return False
    q = int(psi.qD[0][0])
    idx = 0
    for i in range(L):
        psi.A[i] = np.zeros_like(psi.A[i], dtype=complex)
        q2 = q + qd[cfg[i]]
        cand = [b for b, x in enumerate(psi.qD[i + 1]) if int(x) == q2]
        if not cand:
            return False
        b = cand[0]
        psi.A[i][cfg[i], idx, b] = 1.0
        idx, q = b, q2
    return True


def random_state(ptn, rng, H, maxD=4, complete=False, real=False, qnums=True):
    L = H.nsites
    qd = [int(x) for x in H.qd]
    if not qnums:
        qd0 = [0] * len(qd)
    else:
        qd0 = qd
    reach = sorted(count_paths(qd0, L))
    # prefer sectors of moderate size
    sizes = count_paths(qd0, L)
    cands = [q for q in reach if sizes[q] >= 2] or reach
    qtot = int(rng.choice(cands))
    if complete:
        qD = full_bond_charges(qd0, L, qtot)
    else:
        _, qD = canon.gen_charges(rng, L, len(qd0), 'mps', 'u1', qd=qd0, q_start=0, qtot=qtot, maxD=maxD, dead=False)
        qD = [[q for q in qb] for qb in qD]
    psi = ptn.MPS(qd0, qD, fill='random', rng=rng)
    if real:
        for i in range(L):
            psi.A[i] = np.where(psi.A[i] != 0, rng.normal(size=psi.A[i].shape), 0.0)
    for a in psi.A:
        a *= float(rng.uniform(0.5, 2.0))
    return psi


# --------------------------------------------------------------------------------------------------- observation
def _iso_ok(A, direction):
    return canon.iso_defect(A, 'mps', direction) <= 1e-8


def _left_block(ptn, psi, H, k):
    """block to the left of site k, recomputed with the harness's own einsum (independent of pytenet.operation)"""
    B = np.array([[[1]]], dtype=complex)
    for j in range(k):
        # B[a,w,b] A[t,a,a2] W[s,t,w,w2] conj(A[s,b,b2]) -> [a2,w2,b2]
        B = np.einsum('awb,tac,stwx,sbd->cxd', B, psi.A[j], H.A[j], np.conj(psi.A[j]), optimize=True)
    return B


def _right_block(ptn, psi, H, k):
    """block to the right of site k (own einsum)"""
    B = np.array([[[1]]], dtype=complex)
    for j in range(psi.nsites - 1, k, -1):
        # A[t,a,a2] W[s,t,w,w2] conj(A[s,b,b2]) R[a2,w2,b2] -> [a,w,b]
        B = np.einsum('tac,stwx,sbd,cxd->awb', psi.A[j], H.A[j], np.conj(psi.A[j]), B, optimize=True)
    return B


def _close(X, Y):
    X, Y = np.asarray(X), np.asarray(Y)
    return X.shape == Y.shape and bool(np.linalg.norm(X - Y) <= 1e-8 * max(1.0, float(np.linalg.norm(Y))))


def _frac(arg, dt0):
    for f, val in ((1, 0.5 * dt0), (-1, -0.5 * dt0), (2, dt0), (-2, -dt0)):
        if arg == val:
            return f
    return 99


def _index_of(lst, obj):
    for k, x in enumerate(lst):
        if x is obj:
            return k
    return None


def make_wrappers(ptn, tr, alg, dt_ref=None):
    """wrappers for the local problems of one algorithm; they read psi, H, BL, BR, dt from the caller's frame"""
    def observe(kind_hint, Lb, Rb, W, A, dt_arg, frame_locals, en=None, extra_ok=True):
        loc = frame_locals
        psi, H, BL, BR = loc.get('psi'), loc.get('H'), loc.get('BL'), loc.get('BR')
        if psi is None or H is None or BL is None or BR is None:
            # the integrator keeps its state under other names: the observer cannot locate the local problem (wrap.patched
            # turns this into a hook_error record; the trace is then validated on its result clauses only)
            raise LookupError('locals psi / H / BL / BR not found in the calling frame')
        dt0 = dt_ref if dt_ref is not None else loc.get('dt', None)
        kl = _index_of(BL, Lb)
        kr = _index_of(BR, Rb)
        L = psi.nsites
        if kind_hint == 'bond':
            kind, i = 'bond', (kl - 1 if kl is not None else -1)
            lsite, rsite = i, i + 1                    # left block includes site i; right block starts at site i+1
            fresh_l = kl is not None and _close(Lb, _left_block(ptn, psi, H, i + 1))
            fresh_r = kr is not None and kr == i and _close(Rb, _right_block(ptn, psi, H, i))
            canon_l = all(_iso_ok(psi.A[j], 'left') for j in range(0, i + 1))
            canon_r = all(_iso_ok(psi.A[j], 'right') for j in range(i + 1, L))
        else:
            ws = _index_of(H.A, W)
            if ws is not None:
                kind, i, last = 'site', ws, ws
            else:
                kind, i = 'pair', (kl if kl is not None else -1)
                last = i + 1
            fresh_l = kl is not None and kl == i and _close(Lb, _left_block(ptn, psi, H, i))
            fresh_r = kr is not None and kr == last and _close(Rb, _right_block(ptn, psi, H, last))
            canon_l = all(_iso_ok(psi.A[j], 'left') for j in range(0, i))
            canon_r = all(_iso_ok(psi.A[j], 'right') for j in range(last + 1, L))
        f = 0 if dt_arg is None else _frac(dt_arg, dt0)
        tr.append(dict(ev='local', kind=kind, i=int(i), f=int(f), fresh_l=bool(fresh_l), fresh_r=bool(fresh_r),
                       canon_l=bool(canon_l), canon_r=bool(canon_r), en=en if en is not None else '', local_ok=bool(extra_ok)))

    def mk_site(orig):
        def w(Lb, Rb, W, A, dt, numiter):
            observe('site', Lb, Rb, W, A, dt, wrap.caller_locals())
            return orig(Lb, Rb, W, A, dt, numiter)
        return w

    def mk_bond(orig):
        def w(Lb, Rb, C, dt, numiter):
            observe('bond', Lb, Rb, None, C, dt, wrap.caller_locals())
            return orig(Lb, Rb, C, dt, numiter)
        return w

    def mk_min(orig):
        def w(Lb, Rb, W, Astart, numiter):
            loc = wrap.caller_locals()
            en, Aopt = orig(Lb, Rb, W, Astart, numiter)
            try:
                HA = ptn.apply_local_hamiltonian(Lb, Rb, W, Astart)
                nn = float(np.real(np.vdot(Astart, Astart)))
                ray = float(np.real(np.vdot(Astart, HA))) / nn
                ok = bool(float(en) <= ray + 1e-9 * max(1.0, abs(ray)))
            except Exception:
                ok = False
            observe('site', Lb, Rb, W, Astart, None, loc, en=float(en).hex(), extra_ok=ok)
            return en, Aopt
        return w
    if alg.startswith('tdvp'):
        return [(ptn.evolution, '_local_hamiltonian_step', mk_site), (ptn.evolution, '_local_bond_step', mk_bond)]
    return [(ptn.minimization, '_minimize_local_energy', mk_min)]


def dense_energy(Hd, v):
    return float(np.real(np.vdot(v, Hd @ v)) / np.real(np.vdot(v, v)))


def record_tdvp(ptn, H, psi, alg, dt, nsteps, numiter, tol_split=0.0, tr=None, sign=1, expect_reduced=False, checks=None):
    """one call of integrate_local_singlesite / twosite; appends begin / local* / end records to tr"""
    tr = tr if tr is not None else []
    L = psi.nsites
    tr.append(dict(ev='begin', alg=alg, L=L, nsteps=nsteps, sign=sign))
    try:
        Hd = np.asarray(H.as_matrix())
        v0 = psi.as_vector()
        n0 = float(np.linalg.norm(v0))
        E0 = dense_energy(Hd, v0) if n0 > 0 else 0.0
        hdig = digest_arrays(H.A + list(H.qD) + [H.qd])
        dims0 = list(psi.bond_dims)
        q0, qL = psi.qD[0].copy(), psi.qD[-1].copy()
        fn = ptn.integrate_local_singlesite if alg == 'tdvp1' else ptn.integrate_local_twosite
        with warnings.catch_warnings():
            warnings.simplefilter('ignore')
            with wrap.patched(*make_wrappers(ptn, tr, alg, dt_ref=dt), trace=tr) as missing:
                if alg == 'tdvp1':
                    ret = fn(H, psi, sign * dt, nsteps, numiter_lanczos=numiter)
                else:
                    ret = fn(H, psi, sign * dt, nsteps, numiter_lanczos=numiter, tol_split=tol_split)
        v1 = psi.as_vector()
        n1 = float(np.linalg.norm(v1))
        unitary = (np.real(dt) == 0) and tol_split == 0
        scaleH = max(1.0, float(np.linalg.norm(Hd, 2)))
        end = dict(ev='end', is_dmrg=False, nsteps=nsteps, energies=[], hooks_missing=bool(missing),
                   ret_ok=bool(abs(float(np.real(ret)) - n0) <= 1e-10 * max(1.0, n0)),
                   h_unchanged=bool(hdig == digest_arrays(H.A + list(H.qD) + [H.qd])),
                   sparse_ok=bool(canon.all_sparse(psi, 'mps')), types_ok=bool(canon.types_ok(psi, 'mps')),
                   boundary_ok=bool(np.array_equal(q0, psi.qD[0]) and np.array_equal(qL, psi.qD[-1])),
                   dims_ok=bool(alg != 'tdvp1' or all(a <= b for a, b in zip(psi.bond_dims, dims0))),
                   norm_ok=bool((not unitary) or abs(n1 - 1.0) <= 1e-9),
                   energy_ok=bool((not unitary) or abs(dense_energy(Hd, v1) - E0) <= 1e-9 * scaleH),
                   extra_ok=True, extra_what='', expect_reduced=bool(expect_reduced))
        if checks is not None:
            ok, what = checks(v0, v1, float(np.real(ret)), Hd)
            end.update(extra_ok=bool(ok), extra_what=what)
        tr.append(end)
    except BaseException as ex:  # noqa
        tr.append(dict(ev='raise', exc=f'{type(ex).__name__}: {str(ex)[:90]}'))
    return tr


def sector_ground_energy(Hd, qd, L, qtot):
    qd = np.asarray(qd)
    charges = np.zeros(1, dtype=int)
    for _ in range(L):
        charges = np.add.outer(charges, qd).reshape(-1)
    idx = np.where(charges == qtot)[0]
    if len(idx) == 0:
        return None
    return float(np.linalg.eigvalsh(Hd[np.ix_(idx, idx)])[0])


def record_dmrg(ptn, H, psi, alg, nsweeps, numiter, tol_split=0.0, tr=None, complete=False, basis_start=False):
    tr = tr if tr is not None else []
    L = psi.nsites
    tr.append(dict(ev='begin', alg=alg, L=L, nsteps=nsweeps, sign=1))
    try:
        Hd = np.asarray(H.as_matrix())
        v0 = psi.as_vector()
        E_start = dense_energy(Hd, v0)
        hdig = digest_arrays(H.A + list(H.qD) + [H.qd])
        dims0 = list(psi.bond_dims)
        q0, qL = psi.qD[0].copy(), psi.qD[-1].copy()
        qtot = int(psi.qD[-1][0] - psi.qD[0][0])
        with warnings.catch_warnings():
            warnings.simplefilter('ignore')
            with wrap.patched(*make_wrappers(ptn, tr, alg), trace=tr) as missing:
                if alg == 'dmrg1':
                    en = ptn.calculate_ground_state_local_singlesite(H, psi, nsweeps, numiter_lanczos=numiter)
                else:
                    en = ptn.calculate_ground_state_local_twosite(H, psi, nsweeps, numiter_lanczos=numiter, tol_split=tol_split)
        en = np.asarray(en, dtype=float)
        v1 = psi.as_vector()
        scaleH = max(1.0, float(np.linalg.norm(Hd, 2)))
        e_sector = sector_ground_energy(Hd, psi.qd, L, qtot)
        tolE = 1e-9 * scaleH
        varia = all(e >= e_sector - tolE for e in en) if e_sector is not None else True
        below_start = all(e <= E_start + tolE for e in en) if tol_split == 0 else True
        mono = all(en[k + 1] <= en[k] + tolE for k in range(len(en) - 1)) if tol_split == 0 else True
        # with a truncating split the state changes after the last local minimisation: consistency (like monotonicity and the
        # start bound) is a statement about zero split tolerance
        consistent = abs(dense_energy(Hd, v1) - en[-1]) <= 1e-8 * scaleH if (len(en) and tol_split == 0) else True
        exact = True
        if complete and not basis_start and numiter >= 25 and nsweeps >= 3 and e_sector is not None:
            exact = abs(en[-1] - e_sector) <= 1e-7 * scaleH
        lowered = True
        if basis_start and alg == 'dmrg2' and numiter >= 2 and len(en):
            # a basis state that is not an eigenstate has a non-zero two-site gradient on some pair (nearest-neighbour H)
            vn = v0 / np.linalg.norm(v0)
            if np.linalg.norm(Hd @ vn - E_start * vn) > 1e-6 * scaleH:
                lowered = bool(en[-1] < E_start - 1e-9 * scaleH)
        what = ''
        if not varia:
            what = 'a reported energy lies below the exact ground-state energy of the sector'
        elif not below_start:
            what = 'a reported energy exceeds the energy of the normalized starting state'
        elif not mono:
            what = 'reported energies are not non-increasing'
        elif not exact:
            what = 'complete manifold: exact sector ground-state energy not reached'
        elif not lowered:
            what = 'two-site DMRG started from a basis state that is not an eigenstate did not lower the energy'
        tr.append(dict(ev='end', is_dmrg=True, nsteps=nsweeps, energies=[float(e).hex() for e in en], hooks_missing=bool(missing),
                       ret_ok=bool(len(en) == nsweeps), h_unchanged=bool(hdig == digest_arrays(H.A + list(H.qD) + [H.qd])),
                       sparse_ok=bool(canon.all_sparse(psi, 'mps')), types_ok=bool(canon.types_ok(psi, 'mps')),
                       boundary_ok=bool(np.array_equal(q0, psi.qD[0]) and np.array_equal(qL, psi.qD[-1])),
                       dims_ok=bool(all(a <= b for a, b in zip(psi.bond_dims, dims0)) or alg == 'dmrg2'),
                       norm_ok=bool(abs(float(np.linalg.norm(v1)) - 1.0) <= 1e-9),
                       energy_ok=bool(consistent), extra_ok=bool(varia and below_start and mono and exact and lowered), extra_what=what,
                       expect_reduced=False))
    except BaseException as ex:  # noqa
        tr.append(dict(ev='raise', exc=f'{type(ex).__name__}: {str(ex)[:90]}'))
    return tr


def relax(trace):
    """results-only view of a TraceSweep trace (pass 2 of parallel.validate_chunks): local-problem events are removed"""
    out = []
    for r in trace:
        if r.get('ev') in ('local', 'local_unlocated'):
            continue
        out.append(dict(r, hooks_missing=True) if r.get('ev') == 'end' else r)
    return out
