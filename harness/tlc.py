"""Thin driver around TLC: run a model / trace-validation / simulation, parse the result."""
import os
import re
import subprocess
import time
import shutil
import json

from . import tlaval

SPEC_DIR = os.path.join(os.path.dirname(os.path.dirname(os.path.abspath(__file__))), 'spec')
JAR = '/opt/veriftools/tla/tla2tools.jar:/opt/veriftools/tla/CommunityModules-deps.jar'


class TlcMachineryError(Exception):
    """TLC could not be run / parse error / timeout: never a property verdict."""


class TlcResult:
    def __init__(self):
        self.generated = 0
        self.distinct = 0
        self.depth = 0
        self.wall = 0.0
        self.out = ''
        self.violated = None      # name of violated invariant / property, or 'deadlock', 'assert', 'postcondition'
        self.ok = False
        self.prints = []
        self.coverage = {}
        self.cmd = ''

    def summary(self):
        return dict(generated=self.generated, distinct=self.distinct, depth=self.depth,
                    wall_s=round(self.wall, 2), violated=self.violated)


def _cfg_text(spec='Spec', invariants=(), properties=(), constants=None, constraint=None,
              view=None, postcondition=None, deadlock=False, init=None, next_=None, action_constraint=None,
              symmetry=None):
    lines = []
    if init:
        lines += [f'INIT {init}', f'NEXT {next_}']
    else:
        lines.append(f'SPECIFICATION {spec}')
    for k, v in (constants or {}).items():
        lines.append(f'CONSTANT {k} = {v}' if not str(v).startswith('<-') else f'CONSTANT {k} {v}')
    for inv in invariants:
        lines.append(f'INVARIANT {inv}')
    for p in properties:
        lines.append(f'PROPERTY {p}')
    if constraint:
        lines.append(f'CONSTRAINT {constraint}')
    if action_constraint:
        lines.append(f'ACTION_CONSTRAINT {action_constraint}')
    if view:
        lines.append(f'VIEW {view}')
    if symmetry:
        lines.append(f'SYMMETRY {symmetry}')
    if postcondition:
        lines.append(f'POSTCONDITION {postcondition}')
    lines.append('CHECK_DEADLOCK ' + ('TRUE' if deadlock else 'FALSE'))
    return '\n'.join(lines) + '\n'


def tla_const(v):
    """Python value -> TLA+ constant expression usable in a cfg file."""
    if isinstance(v, bool):
        return 'TRUE' if v else 'FALSE'
    if isinstance(v, int):
        return str(v)
    if isinstance(v, str):
        return '"' + v + '"'
    if isinstance(v, (list, tuple)):
        return '<<' + ', '.join(tla_const(x) for x in v) + '>>'
    if isinstance(v, (set, frozenset)):
        return '{' + ', '.join(tla_const(x) for x in sorted(v)) + '}'
    if isinstance(v, dict):
        return '[' + ', '.join(f'{k} |-> {tla_const(x)}' for k, x in v.items()) + ']'
    raise TypeError(v)


def run(module, workdir, tag, *, cfg=None, env=None, workers=1, timeout=900, simulate=None, depth=None,
        seed=None, dfs=False, coverage=False, dump=None, extra=(), heap_gb=8, defs=None, **cfgkw):
    """Run TLC on spec/<module>.tla with a generated cfg.  Returns TlcResult.

    simulate: None (BFS model checking) or dict(num=..., file=optional prefix)
    """
    os.makedirs(workdir, exist_ok=True)
    root = os.path.join(SPEC_DIR, module + '.tla')
    if defs:
        # constants that a cfg file cannot express (negative numbers, sets of tuples, ...) become definitions of a
        # generated root module  MC_<tag>  that extends the specification
        mc = f'MC_{tag}'
        root = os.path.join(workdir, mc + '.tla')
        with open(root, 'w') as f:
            f.write(f'---- MODULE {mc} ----\nEXTENDS {module}\n')
            for k, v in defs.items():
                f.write(f'def_{k} == {v}\n')
            f.write('====\n')
        cfgkw = dict(cfgkw)
        consts = dict(cfgkw.get('constants') or {})
        for k in defs:
            consts[k] = f'<- def_{k}'
        cfgkw['constants'] = consts
    cfg_path = os.path.join(workdir, f'{tag}.cfg')
    with open(cfg_path, 'w') as f:
        f.write(cfg if cfg is not None else _cfg_text(**cfgkw))
    meta = os.path.join(workdir, f'{tag}.meta')
    shutil.rmtree(meta, ignore_errors=True)
    java = ['java', f'-Xmx{heap_gb}g', '-Xss256m', '-XX:+UseParallelGC']
    if dfs:
        java.append('-Dtlc2.tool.queue.IStateQueue=StateDeque')
    java.append(f'-DTLA-Library={SPEC_DIR}')
    cmd = java + ['-cp', JAR, 'tlc2.TLC', '-workers', str(workers), '-metadir', meta, '-noGenerateSpecTE',
                  '-config', cfg_path]
    if simulate is not None:
        s = 'num=%d' % simulate.get('num', 100)
        if simulate.get('file'):
            s = 'file=%s,' % simulate['file'] + s
        cmd += ['-simulate', s]
    if depth is not None:
        cmd += ['-depth', str(depth)]
    if seed is not None:
        cmd += ['-seed', str(seed)]
    if coverage:
        cmd += ['-coverage', '1']
    if dump:
        cmd += ['-dump', dump]
    cmd += list(extra)
    cmd.append(root)
    e = dict(os.environ)
    e.pop('JAVA_TOOL_OPTIONS', None)
    if env:
        e.update({k: str(v) for k, v in env.items()})
    t0 = time.time()
    try:
        p = subprocess.run(cmd, cwd=os.path.dirname(root), env=e, stdout=subprocess.PIPE, stderr=subprocess.STDOUT,
                           timeout=timeout, text=True)
    except subprocess.TimeoutExpired as ex:
        subprocess.run(['pkill', '-f', meta], check=False)
        raise TlcMachineryError(f'TLC timeout after {timeout}s on {module}/{tag}') from ex
    r = TlcResult()
    r.wall = time.time() - t0
    r.out = p.stdout
    r.cmd = ' '.join(cmd)
    with open(os.path.join(workdir, f'{tag}.out'), 'w') as f:
        f.write(r.out)
    shutil.rmtree(meta, ignore_errors=True)
    m = re.search(r'(\d+) states generated, (\d+) distinct states found', r.out)
    if m:
        r.generated, r.distinct = int(m.group(1)), int(m.group(2))
    m = re.search(r'depth of the complete state graph search is (\d+)', r.out)
    if m:
        r.depth = int(m.group(1))
    if simulate is not None:
        m = re.search(r'The number of states generated: (\d+)', r.out)
        if m:
            r.generated = int(m.group(1))
            r.distinct = r.generated
    # verdict
    if 'Model checking completed. No error has been found.' in r.out or \
       (simulate is not None and re.search(r'Finished in|The number of states generated', r.out)
            and 'Error:' not in r.out):
        r.ok = True
    else:
        m = re.search(r'Invariant (\S+) is violated', r.out)
        if m:
            r.violated = m.group(1)
        elif re.search(r'Action property (\S+) is violated', r.out):
            r.violated = re.search(r'Action property (\S+) is violated', r.out).group(1)
        elif 'Temporal properties were violated' in r.out:
            r.violated = 'temporal'
        elif 'Deadlock reached' in r.out:
            r.violated = 'deadlock'
        elif re.search(r'[Pp]ost-?condition', r.out) and 'violated' in r.out:
            r.violated = 'postcondition'
        elif 'Assumption' in r.out and 'is false' in r.out:
            r.violated = 'assumption'
        else:
            tail = '\n'.join(r.out.splitlines()[-30:])
            raise TlcMachineryError(f'TLC failed on {module}/{tag} (exit {p.returncode}):\n{tail}')
    # printed tuples
    body = r.out
    i = body.find('Starting...')
    if i >= 0:
        body = body[i:]
    for s in tlaval.extract_values(body):
        try:
            r.prints.append(tlaval.parse(s))
        except Exception:
            pass
    if coverage:
        for m in re.finditer(r'<(\w+) line (\d+), col \d+ to line \d+, col \d+ of module (\w+)>: (\d+):(\d+)', r.out):
            r.coverage[m.group(1)] = r.coverage.get(m.group(1), 0) + int(m.group(5))
    return r


def sany(module):
    p = subprocess.run(['java', '-cp', JAR, 'tla2sany.SANY', os.path.join(SPEC_DIR, module + '.tla')],
                       cwd=SPEC_DIR, stdout=subprocess.PIPE, stderr=subprocess.STDOUT, text=True)
    ok = p.returncode == 0 and 'Semantic errors' not in p.stdout and 'Parse Error' not in p.stdout \
        and '***Parse Error***' not in p.stdout and 'Fatal' not in p.stdout
    return ok, p.stdout
