"""Generators / recorders for the Krylov routines (C14, C15): integer matrices with an exactly known Krylov dimension."""
import warnings

import numpy as np
from scipy.linalg import expm

from . import models, wrap


def exact_kdim(A, v):
    """dimension of span{v, Av, A^2 v, ...} over the rationals (complex integer data handled through the real embedding)"""
    A = np.asarray(A)
    v = np.asarray(v)
    if np.iscomplexobj(A) or np.iscomplexobj(v):
        # Krylov dimension over C of (A, v): rank over C of K = [v, Av, ...]; computed as rank over Q of the real embedding / 2
        n = len(v)
        cols = []
        w = v.astype(complex)
        for _ in range(n):
            cols.append(w)
            w = A @ w
        K = np.stack(cols, axis=1)
        Kr = np.block([[K.real, -K.imag], [K.imag, K.real]])
        return models.rank_exact(np.rint(Kr).astype(object).astype(np.int64) if np.max(np.abs(Kr)) < 2**62 else Kr) // 2
    n = len(v)
    cols = []
    w = [int(x) for x in v]
    Ai = [[int(x) for x in r] for r in A.tolist()]
    for _ in range(n):
        cols.append(list(w))
        w = [sum(Ai[i][k] * w[k] for k in range(n)) for i in range(n)]
    rows = [[cols[c][r] for c in range(n)] for r in range(n)]
    return models.rank_exact(np.array(rows, dtype=object))


def gen_problem(rng, hermitian, maxn=8):
    """integer (Gaussian-integer) matrix and start vector; families: generic, degenerate, block (invariant subspace), scalar"""
    n = int(rng.integers(1, maxn + 1))
    fam = str(rng.choice(['generic', 'generic', 'degenerate', 'block', 'scalar', 'ladder', 'projector', 'near_eig']))
    cplx = bool(rng.integers(2))
    if fam == 'near_eig' and n >= 2:
        # start vector close to an eigenvector inside a small invariant subspace: the first off-diagonal coefficient is tiny, the
        # Krylov space is exhausted after k steps, and the rounding-level residual at that point is amplified (finding F6)
        k = int(rng.integers(2, min(4, n) + 1))
        lam = rng.choice(np.arange(-6, 7), size=n, replace=False).astype(float)
        A = np.diag(lam)
        if not hermitian:
            A = A + np.triu(rng.integers(-1, 2, size=(n, n)), 1) * (np.arange(n)[:, None] < k) * (np.arange(n)[None, :] < k)
        v = np.zeros(n)
        v[:k] = rng.integers(1, 4, size=k)
        v[0] *= 10 ** int(rng.integers(2, 7))
        p = rng.permutation(n)
        return A[np.ix_(p, p)], v[p], fam, 'near_eig'

    def rand_mat(k):
        M = rng.integers(-3, 4, size=(k, k)).astype(complex if cplx else float)
        if cplx:
            M = M + 1j * rng.integers(-2, 3, size=(k, k))
        return M
    if fam == 'scalar':
        A = int(rng.integers(-2, 3)) * np.eye(n)
    elif fam == 'ladder' and not hermitian:
        A = np.diag(np.ones(max(n - 1, 0)), -1) * int(rng.integers(1, 3))
    elif fam == 'projector':
        k = int(rng.integers(0, n + 1))
        A = np.diag([1.0] * k + [0.0] * (n - k)) * int(rng.integers(1, 4))
    elif fam == 'block' and n >= 2:
        k = int(rng.integers(1, n))
        A = np.zeros((n, n), dtype=complex if cplx else float)
        A[:k, :k] = rand_mat(k)
        A[k:, k:] = rand_mat(n - k)
    elif fam == 'degenerate' and n >= 2:
        B = rand_mat(max(1, n // 2))
        A = np.kron(np.eye(2), B)[:n, :n] if n % 2 == 0 else np.pad(np.kron(np.eye(2), B), ((0, 1), (0, 1)))[:n, :n]
    else:
        A = rand_mat(n)
    if hermitian:
        A = A + A.conj().T
    # start vector: generic, real, or confined to an invariant subspace
    vk = str(rng.choice(['generic', 'real', 'subspace', 'unit']))
    if vk == 'unit':
        v = np.zeros(n); v[int(rng.integers(n))] = int(rng.integers(1, 4))
    elif vk == 'subspace' and fam == 'block' and n >= 2:
        v = np.zeros(n, dtype=complex if cplx else float)
        k = int(rng.integers(1, n))
        v[:k] = rng.integers(-2, 3, size=k)
    elif vk == 'real' or not cplx:
        v = rng.integers(-3, 4, size=n).astype(float)
    else:
        v = rng.integers(-3, 4, size=n) + 1j * rng.integers(-2, 3, size=n)
    if not np.any(v):
        v[0] = 1
    # hide the block structure by a permutation similarity
    if fam in ('block', 'degenerate', 'projector', 'ladder') and rng.random() < 0.6:
        p = rng.permutation(n)
        A = A[np.ix_(p, p)]
        v = v[p]
    return A, v, fam, vk


def exp10(x):
    return int(np.floor(np.log10(x))) if x > 0 and np.isfinite(x) else (-99 if x == 0 else 99)


def _ambiguous(offdiag):
    # a returned off-diagonal below 1e-6 did not trigger the code's absolute breakdown threshold (100 n eps) although it is
    # a rounding-level quantity: the exact rank and the floating-point decision may legitimately differ there
    # (an exactly vanishing or non-finite entry is not a rounding-level quantity: 0 < threshold always trips)
    a = np.abs(np.asarray(offdiag))
    return bool(np.any((a > 0) & (a < 1e-6)))


def _ortho_tol(offdiag, kk, nA):
    """orthogonality bound of a Gram-Schmidt / three-term recurrence without re-orthogonalization: rounding errors of size
    eps ||A|| are divided by the smallest off-diagonal coefficient met so far (a start vector close to an eigenvector gives a
    tiny first coefficient); 1e-10 for well-conditioned runs"""
    a = np.abs(np.asarray(offdiag, dtype=float))[:max(kk - 1, 0)]
    a = a[np.isfinite(a) & (a > 0)]
    amp = 1e3 * np.finfo(float).eps * nA / float(np.min(a)) if a.size else 0.0
    return 1e-10 * max(1, kk) + amp


def record_lanczos(ptn, A, v, m):
    n = len(v)
    kdim = exact_kdim(A, v)
    rec = dict(ev='lanczos', n=n, m=m, kdim=int(kdim))
    try:
        with warnings.catch_warnings(record=True) as wl:
            warnings.simplefilter('always')
            alpha, beta, V = ptn.lanczos_iteration(lambda x: A @ x, v.copy(), m)
        k = len(alpha)
        nA = max(1.0, float(np.linalg.norm(A, 2)) if n else 1.0)
        sizes = bool(np.ndim(alpha) == 1 and len(beta) == k - 1 and V.shape == (n, k)
                     and np.all(np.isfinite(alpha)) and np.all(np.isfinite(beta)) and np.all(np.isfinite(V)))
        T = np.diag(alpha) + np.diag(beta, 1) + np.diag(beta, -1) if sizes else np.zeros((k, k))
        kk = min(k, kdim)
        Vl = V[:, :kk]
        rec.update(k=int(k), warned=bool(any(issubclass(w.category, RuntimeWarning) for w in wl)), sizes_consistent=sizes,
                   ambiguous=_ambiguous(beta),
                   ortho_ok=bool(sizes and np.linalg.norm(Vl.conj().T @ Vl - np.eye(kk)) <= _ortho_tol(beta, kk, nA)),
                   proj_ok=bool(sizes and np.linalg.norm(Vl.conj().T @ A @ Vl - T[:kk, :kk]) <= 1e-9 * nA + 10 * nA * _ortho_tol(beta, kk, nA)),
                   alpha_real=bool(np.isrealobj(alpha) and np.isrealobj(beta)),
                   beta_pos=bool(np.all(np.asarray(beta)[:kk - 1] > 0)), hess_ok=True)
    except BaseException as ex:  # noqa
        return dict(ev='raise', exc=f'{type(ex).__name__}: {str(ex)[:80]}', n=n, m=m, kdim=int(kdim))
    return rec


def record_arnoldi(ptn, A, v, m):
    n = len(v)
    kdim = exact_kdim(A, v)
    rec = dict(ev='arnoldi', n=n, m=m, kdim=int(kdim))
    try:
        with warnings.catch_warnings(record=True) as wl:
            warnings.simplefilter('always')
            H, V = ptn.arnoldi_iteration(lambda x: A @ x, v.copy(), m)
        k = H.shape[0]
        nA = max(1.0, float(np.linalg.norm(A, 2)))
        sizes = bool(H.ndim == 2 and H.shape == (k, k) and V.shape == (n, k))
        kk = min(k, kdim)
        Vl = V[:, :kk]
        rec.update(k=int(k), warned=bool(any(issubclass(w.category, RuntimeWarning) for w in wl)), sizes_consistent=sizes,
                   ambiguous=_ambiguous(np.diag(H, -1)) or not np.all(np.isfinite(H)),
                   ortho_ok=bool(sizes and np.all(np.isfinite(V)) and np.linalg.norm(Vl.conj().T @ Vl - np.eye(kk)) <= _ortho_tol(np.diag(H, -1), kk, nA)),
                   proj_ok=bool(sizes and np.all(np.isfinite(H)) and np.linalg.norm(Vl.conj().T @ A @ Vl - H[:kk, :kk]) <= 1e-9 * nA + 10 * nA * _ortho_tol(np.diag(H, -1), kk, nA)),
                   hess_ok=bool(sizes and np.allclose(np.tril(H, -2), 0)), alpha_real=True, beta_pos=True)
        if not np.all(np.isfinite(H)) or not np.all(np.isfinite(V)):
            rec['ambiguous'] = False
            rec['ortho_ok'] = False
    except BaseException as ex:  # noqa
        return dict(ev='raise', exc=f'{type(ex).__name__}: {str(ex)[:80]}', n=n, m=m, kdim=int(kdim))
    return rec


def _routed(ptn, fn):
    """run fn() and report which iteration routine was entered"""
    seen = []

    def mk(name):
        def f(orig):
            def w(*a, **k):
                seen.append(name)
                return orig(*a, **k)
            return w
        return f
    with wrap.patched((ptn.krylov, 'lanczos_iteration', mk('lanczos')), (ptn.krylov, 'arnoldi_iteration', mk('arnoldi'))):
        with warnings.catch_warnings():
            warnings.simplefilter('ignore')
            out = fn()
    return out, (seen[0] if len(seen) == 1 else ('none' if not seen else 'both'))


def krylov_basis(A, v, kdim):
    cols, w = [], v.astype(complex)
    for _ in range(kdim):
        cols.append(w)
        w = A @ w
    Q, _ = np.linalg.qr(np.stack(cols, axis=1))
    return Q


def record_eigh(ptn, A, v, m):
    n = len(v)
    kdim = exact_kdim(A, v)
    rec = dict(ev='eigh', n=n, m=m, kdim=int(kdim))
    try:
        (w, u), routed = _routed(ptn, lambda: ptn.eigh_krylov(lambda x: A @ x, v.copy(), m, 1))
        nA = max(1.0, float(np.linalg.norm(A, 2)))
        lam = np.linalg.eigvalsh(A)
        vv = v / np.linalg.norm(v)
        ray = float(np.real(np.vdot(vv, A @ vv)))
        th = float(w[0])
        Q = krylov_basis(A, v, kdim)
        reach = np.linalg.eigvalsh(Q.conj().T @ A @ Q)
        (w2, u2), _ = _routed(ptn, lambda: ptn.eigh_krylov(lambda x: A @ x, v.copy(), m, min(m, kdim)))
        kk = u2.shape[1]
        rec.update(routed=routed, ritz_ge_lmin=bool(th >= lam[0] - 1e-10 * nA), ritz_le_rayleigh=bool(th <= ray + 1e-10 * nA),
                   ritz_eq_reachable_min=bool(abs(th - reach[0]) <= 1e-8 * nA),
                   ritz_orthonormal=bool(np.linalg.norm(u2.conj().T @ u2 - np.eye(kk)) <= 1e-9 * max(1, kk)),
                   ritz_rayleigh=bool(np.allclose(np.real(np.einsum('ik,ik->k', u2.conj(), A @ u2)), w2, atol=1e-9 * nA)),
                   shapes_ok=bool(len(w) == 1 and u.shape == (n, 1)))
    except BaseException as ex:  # noqa
        return dict(ev='raise', exc=f'{type(ex).__name__}: {str(ex)[:80]}', n=n, m=m, kdim=int(kdim))
    return rec


def record_expm(ptn, A, v, m, dt, hermitian):
    n = len(v)
    kdim = exact_kdim(A, v)
    rec = dict(ev='expm', n=n, m=m, kdim=int(kdim), hermitian=bool(hermitian), imag_time=bool(np.real(dt) == 0))
    try:
        out, routed = _routed(ptn, lambda: ptn.expm_krylov(lambda x: A @ x, v.copy(), dt, m, hermitian=hermitian))
        nv = float(np.linalg.norm(v))
        ref = expm(dt * A) @ v
        nA = max(1.0, float(np.linalg.norm(A, 2)))
        rec.update(routed=routed, norm_ok=bool(abs(np.linalg.norm(out) - nv) <= 1e-10 * nv),
                   exact_ok=bool(np.linalg.norm(out - ref) <= 1e-9 * (1 + abs(dt) * nA) * max(nv, float(np.linalg.norm(ref)))),
                   shapes_ok=bool(np.shape(out) == (n,)))
    except BaseException as ex:  # noqa
        return dict(ev='raise', exc=f'{type(ex).__name__}: {str(ex)[:80]}', n=n, m=m, kdim=int(kdim))
    return rec
