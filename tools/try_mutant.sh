#!/bin/sh
# usage: tools/try_mutant.sh <patch.diff> <Cxx> [tier]   -- applies the patch to /repo, runs the check, reverts
P="$(readlink -f "$1")"; C="$2"; T="${3:-quick}"
cd /repo || exit 2
git diff --quiet || { echo "/repo not clean"; exit 2; }
git apply "$P" || { echo "patch does not apply"; exit 2; }
cd /verif && ./check "$C" --tier "$T" > /tmp/mut_$C.log 2>&1
rc=$?
git -C /repo checkout -- .
echo "exit=$rc"; grep -c "^VIOLATION" /tmp/mut_$C.log; grep -m3 "detail:" /tmp/mut_$C.log; grep "MACHINERY" /tmp/mut_$C.log | head -3
exit 0
