#!/bin/sh
# usage: tools/try_mutant_wt.sh <patch.diff> <Cxx> [tier]  -- like try_mutant.sh but in a scratch worktree (VERIF_REPO), /repo untouched
P="$(readlink -f "$1")"; C="$2"; T="${3:-quick}"; WT=/tmp/mt/wt_$$
mkdir -p /tmp/mt; git -C /repo worktree prune; git -C /repo worktree add -q --detach "$WT" HEAD || exit 2
( cd "$WT" && git apply "$P" ) || { echo "patch does not apply"; git -C /repo worktree remove --force "$WT"; exit 2; }
cd /verif && VERIF_OUT=/tmp/mt/out_$$ VERIF_REPO="$WT" ./check "$C" --tier "$T" > /tmp/mt/log_$$ 2>&1
rc=$?
git -C /repo worktree remove --force "$WT"
echo "exit=$rc viol=$(grep -c '^VIOLATION' /tmp/mt/log_$$)"; grep -m2 "detail:" /tmp/mt/log_$$ | cut -c1-230; grep "MACHINERY" /tmp/mt/log_$$ | head -2
rm -rf /tmp/mt/log_$$ /tmp/mt/out_$$
