#!/bin/sh
# usage: tools/try_benign.sh <patch.diff> <Cxx> [<Cyy> ...]  -- run several quick checks against one patch (one scratch worktree)
P="$(readlink -f "$1")"; shift; WT=/tmp/mt/bwt_$$
mkdir -p /tmp/mt; git -C /repo worktree prune; git -C /repo worktree add -q --detach "$WT" HEAD || exit 2
( cd "$WT" && git apply "$P" ) || { echo "patch does not apply"; git -C /repo worktree remove --force "$WT"; exit 2; }
for C in "$@"; do
  cd /verif && VERIF_OUT=/tmp/mt/bout_$$ VERIF_REPO="$WT" ./check "$C" --tier quick > /tmp/mt/blog_$$ 2>&1; rc=$?
  echo "  $C exit=$rc viol=$(grep -c '^VIOLATION' /tmp/mt/blog_$$) dev=$(grep -c '^SPEC-DEVIATION' /tmp/mt/blog_$$)"
  grep -m2 "detail:" /tmp/mt/blog_$$ | cut -c1-260; grep -m3 "^SPEC-DEVIATION" /tmp/mt/blog_$$ | cut -c1-200; grep "MACHINERY" /tmp/mt/blog_$$ | head -2
done
git -C /repo worktree remove --force "$WT"; rm -rf /tmp/mt/blog_$$ /tmp/mt/bout_$$
