#!/usr/bin/env python3
"""Render seeded/MATRIX.json as the table of DESIGN.md section 9 (between the markers <!-- MATRIX:BEGIN --> / <!-- MATRIX:END -->)."""
import json, os, re
VERIF = os.path.dirname(os.path.dirname(os.path.abspath(__file__)))
M = json.load(open(os.path.join(VERIF, 'seeded', 'MATRIX.json')))
rows = []
for sid in sorted(M):
    metap = os.path.join(VERIF, 'seeded', sid, 'meta.json')
    meta = json.load(open(metap)) if os.path.exists(metap) else {}
    kind = 'benign control' if meta.get('kind') == 'benign' else ('reverse of a fix' if sid.startswith('regress_') else
           ('own' if sid.startswith('own_') else 'sub-agent'))
    cells = []
    for c, r in M[sid].items():
        if isinstance(r, str):
            cells.append(f'{c}: {r}')
        else:
            v = 'VIOLATION' if r['exit'] == 1 else ('quiet' if r['exit'] == 0 else 'machinery failure')
            dev = f", {r['spec_deviations']} spec deviation(s)" if r.get('spec_deviations') else ''
            first = re.sub(r'\s+', ' ', r.get('first', ''))[:90].replace('|', '/')
            cells.append(f"{c}: **{v}** ({r['violations']}{dev})" + (f' — {first}' if first and r['exit'] == 1 else ''))
    rows.append(f'| `{sid}` | {kind} | ' + '<br>'.join(cells) + ' |')
table = '| seeded change | origin | quick check(s) run against it |\n|---|---|---|\n' + '\n'.join(rows)
n = len(M)
def _benign(sid):
    mp = os.path.join(VERIF, 'seeded', sid, 'meta.json')
    return os.path.exists(mp) and json.load(open(mp)).get('kind') == 'benign'


nb = sum(1 for sid in M if _benign(sid))
quiet = sum(1 for sid, res in M.items() if _benign(sid) and all(isinstance(r, dict) and r['exit'] == 0 for r in res.values()))
det = sum(1 for sid, res in M.items() if not _benign(sid) and any(isinstance(r, dict) and r['exit'] == 1 for r in res.values()))
p = os.path.join(VERIF, 'DESIGN.md')
s = open(p).read()
s = re.sub(r'<!-- MATRIX:BEGIN -->.*<!-- MATRIX:END -->', lambda m: f'<!-- MATRIX:BEGIN -->\n{n - nb} breaking changes, {det} reported as VIOLATION by at least one of the listed checks; {nb} benign controls, {quiet} of them quiet (exit 0) on every listed check.\n\n{table}\n<!-- MATRIX:END -->', s, flags=re.S)
open(p, 'w').write(s)
print(n, det)
