#!/bin/sh
# usage: tools/confirm_seed.sh <Cxx> <variant>  -- independently confirm a sub-agent's seeded defect in a scratch worktree
C="$1"; V="$2"; SRC=/tmp/wt/${C}_out${3:-}/$V; WT=/tmp/cs/${C}_$V; OUT=/verif/seeded/${C}_$V
[ -f "$SRC/patch.diff" ] || { echo "no patch for $C $V"; exit 2; }
mkdir -p /tmp/cs; rm -rf "$WT"; git -C /repo worktree prune
git -C /repo worktree add -q --detach "$WT" HEAD || exit 2
cd "$WT"
demo_clean=$( /venv/bin/python "$SRC/demo.py" "$WT" >/tmp/cs/${C}_$V.clean.log 2>&1; echo $? )
git apply "$SRC/patch.diff" || { echo "patch does not apply"; git -C /repo worktree remove --force "$WT"; exit 2; }
demo_mut=$( /venv/bin/python "$SRC/demo.py" "$WT" >/tmp/cs/${C}_$V.mut.log 2>&1; echo $? )
OMP_NUM_THREADS=2 /venv/bin/python -m pytest -q -rf -p no:cacheprovider --timeout=900 >/tmp/cs/${C}_$V.t1.log 2>&1; t1=$( tail -1 /tmp/cs/${C}_$V.t1.log )
OMP_NUM_THREADS=2 /venv/bin/python -m pytest -q -rf -p no:cacheprovider --timeout=900 >/tmp/cs/${C}_$V.t2.log 2>&1; t2=$( tail -1 /tmp/cs/${C}_$V.t2.log )
grep -h '^FAILED' /tmp/cs/${C}_$V.t1.log /tmp/cs/${C}_$V.t2.log
# test_krylov.py::test_eigh_krylov fails now and then on the unchanged tree as well (unseeded random matrix; seen with patches that do
# not touch krylov.py): a run whose only failure is that test is repeated once
for k in 1 2; do
  if grep -q '^FAILED' /tmp/cs/${C}_$V.t$k.log && ! grep '^FAILED' /tmp/cs/${C}_$V.t$k.log | grep -qv 'test_eigh_krylov'; then
    if ! git diff --name-only | grep -q krylov; then
      OMP_NUM_THREADS=2 /venv/bin/python -m pytest -q -rf -p no:cacheprovider --timeout=900 >/tmp/cs/${C}_$V.t$k.log 2>&1
      [ $k = 1 ] && t1=$( tail -1 /tmp/cs/${C}_$V.t1.log ) || t2=$( tail -1 /tmp/cs/${C}_$V.t2.log )
      echo "(run $k repeated after a lone test_eigh_krylov failure)"
    fi
  fi
done
cd /; git -C /repo worktree remove --force "$WT"
echo "$C $V demo_clean=$demo_clean demo_mut=$demo_mut tests1='$t1' tests2='$t2'"
case "$t1$t2" in *failed*|*error*) echo "REJECTED: tests fail"; exit 1;; esac
[ "$demo_clean" = 0 ] && [ "$demo_mut" != 0 ] || { echo "REJECTED: demo does not discriminate"; exit 1; }
mkdir -p "$OUT"; cp "$SRC/patch.diff" "$SRC/demo.py" "$OUT/"; [ -f "$SRC/notes.md" ] && cp "$SRC/notes.md" "$OUT/notes.md"
python3 - "$C" "$V" "$t1" "$t2" "$demo_clean" "$demo_mut" <<'PY'
import json,sys
C,V,t1,t2,dc,dm=sys.argv[1:7]
notes=open(f'/verif/seeded/{C}_{V}/notes.md').read() if __import__('os').path.exists(f'/verif/seeded/{C}_{V}/notes.md') else ''
json.dump(dict(property=C, variant=V, source='independent sub-agent given only the property record',
  needs_to_manifest=notes[:1500],
  confirmed=dict(worktree='scratch git worktree of /repo HEAD under /tmp/cs (removed afterwards)',
     test_suite_with_patch=[t1,t2], demo_exit_clean=int(dc), demo_exit_patched=int(dm),
     commands=['git apply patch.diff','/venv/bin/python -m pytest -q -p no:cacheprovider --timeout=900 (twice)','/venv/bin/python demo.py <tree>'])),
  open(f'/verif/seeded/{C}_{V}/meta.json','w'), indent=1)
PY
echo "KEPT $OUT"
