#!/usr/bin/env python3
"""For every seeded patch: scratch worktree of /repo HEAD under /tmp (removed afterwards), patch applied there, the quick check of
the property it targets (plus the extra checks listed in EXTRA) run against it (VERIF_REPO, evidence redirected with VERIF_OUT),
outcome recorded in seeded/<id>/meta.json and seeded/MATRIX.json.  /repo itself is never modified.
usage: tools/mutant_matrix.py [-j N] [seed-id ...]"""
import json, os, subprocess, sys, glob, re, shutil
from concurrent.futures import ThreadPoolExecutor
VERIF = os.path.dirname(os.path.dirname(os.path.abspath(__file__)))
EXTRA = {'regress_F1': ['C05', 'C06', 'C07'], 'regress_F2': ['C07'], 'regress_F3': ['C02', 'C13'], 'regress_F4': ['C01', 'C11', 'C12'], 'regress_F6': ['C10', 'C15', 'C14'],
         'C03_d': ['C03', 'C13'], 'C03_b': ['C03', 'C13'], 'C01_c': ['C01', 'C13'], 'own_cache': ['C03', 'C04'], 'benign_hk_early_exit': ['C18']}
args = sys.argv[1:]
jobs = 4
if args[:1] == ['-j']:
    jobs = int(args[1]); args = args[2:]
only = args
mp = os.path.join(VERIF, 'seeded', 'MATRIX.json')
matrix = json.load(open(mp)) if os.path.exists(mp) else {}


def one(d):
    sid = os.path.basename(d)
    patch = os.path.join(d, 'patch.diff')
    metap0 = os.path.join(d, 'meta.json')
    meta0 = json.load(open(metap0)) if os.path.exists(metap0) else {}
    checks = EXTRA.get(sid) or meta0.get('checks') or [sid.split('_')[0]]
    wt, out = f'/tmp/mm/wt_{sid}', f'/tmp/mm/out_{sid}'
    os.makedirs('/tmp/mm', exist_ok=True)
    shutil.rmtree(wt, ignore_errors=True)
    res = {}
    try:
        if subprocess.run(['git', '-C', '/repo', 'worktree', 'add', '-q', '--detach', wt, 'HEAD']).returncode != 0:
            return sid, {c: 'worktree failed' for c in checks}
        if subprocess.run(['git', 'apply', patch], cwd=wt).returncode != 0:
            res = {c: 'patch does not apply' for c in checks}
        else:
            for c in checks:
                env = dict(os.environ, VERIF_REPO=wt, VERIF_OUT=out)
                p = subprocess.run(['./check', c, '--tier', 'quick'], cwd=VERIF, env=env, stdout=subprocess.PIPE, stderr=subprocess.STDOUT, text=True)
                nviol = len(re.findall(r'^VIOLATION', p.stdout, re.M))
                first = re.search(r'detail: (.*)', p.stdout)
                res[c] = dict(exit=p.returncode, violations=nviol, first=(first.group(1)[:200] if first else ''),
                              spec_deviations=len(re.findall(r'^SPEC-DEVIATION', p.stdout, re.M)))
    finally:
        subprocess.run(['git', '-C', '/repo', 'worktree', 'remove', '--force', wt])
        shutil.rmtree(out, ignore_errors=True)
    return sid, res


dirs = [d for d in sorted(glob.glob(os.path.join(VERIF, 'seeded', '*')))
        if os.path.exists(os.path.join(d, 'patch.diff')) and (not only or os.path.basename(d) in only)]
subprocess.run(['git', '-C', '/repo', 'worktree', 'prune'])
with ThreadPoolExecutor(jobs) as ex:
    for sid, res in ex.map(one, dirs):
        matrix[sid] = res
        d = os.path.join(VERIF, 'seeded', sid)
        metap = os.path.join(d, 'meta.json')
        meta = json.load(open(metap)) if os.path.exists(metap) else dict(property=list(res)[0], source='reverse of a fix: commit (regression control)')
        meta['detected_by'] = res
        json.dump(meta, open(metap, 'w'), indent=1)
        print(sid, {c: (r if isinstance(r, str) else (r['exit'], r['violations'])) for c, r in res.items()}, flush=True)
        json.dump(matrix, open(mp, 'w'), indent=1, sort_keys=True)
