#!/usr/bin/env python3
"""Apply every seeded patch to /repo (one at a time, reverted straight afterwards), run the quick check of the property it
targets (plus the extra checks listed in EXTRA), and record the outcome in seeded/<id>/meta.json and seeded/MATRIX.json."""
import json, os, subprocess, sys, glob, re
VERIF = os.path.dirname(os.path.dirname(os.path.abspath(__file__)))
EXTRA = {'regress_F1': ['C05', 'C06', 'C07'], 'regress_F2': ['C07'], 'regress_F3': ['C02', 'C13'], 'regress_F4': ['C01', 'C11', 'C12']}
only = sys.argv[1:]
matrix = {}
mp = os.path.join(VERIF, 'seeded', 'MATRIX.json')
if os.path.exists(mp):
    matrix = json.load(open(mp))
for d in sorted(glob.glob(os.path.join(VERIF, 'seeded', '*'))):
    sid = os.path.basename(d)
    patch = os.path.join(d, 'patch.diff')
    if not os.path.exists(patch) or (only and sid not in only):
        continue
    checks = EXTRA.get(sid) or [sid.split('_')[0]]
    assert subprocess.run(['git', '-C', '/repo', 'diff', '--quiet']).returncode == 0, '/repo not clean'
    res = {}
    try:
        if subprocess.run(['git', '-C', '/repo', 'apply', patch]).returncode != 0:
            res = {c: 'patch does not apply' for c in checks}
        else:
            for c in checks:
                p = subprocess.run(['./check', c, '--tier', 'quick'], cwd=VERIF, stdout=subprocess.PIPE, stderr=subprocess.STDOUT, text=True)
                nviol = len(re.findall(r'^VIOLATION', p.stdout, re.M))
                first = re.search(r'detail: (.*)', p.stdout)
                res[c] = dict(exit=p.returncode, violations=nviol, first=(first.group(1)[:200] if first else ''))
    finally:
        subprocess.run(['git', '-C', '/repo', 'checkout', '--', '.'])
    matrix[sid] = res
    metap = os.path.join(d, 'meta.json')
    meta = json.load(open(metap)) if os.path.exists(metap) else dict(property=checks[0], source='reverse of a fix: commit (regression control)')
    meta['detected_by'] = res
    json.dump(meta, open(metap, 'w'), indent=1)
    print(sid, {c: (r if isinstance(r, str) else (r['exit'], r['violations'])) for c, r in res.items()}, flush=True)
    json.dump(matrix, open(mp, 'w'), indent=1)
