------------------------------ MODULE ChainOps ------------------------------
(* MPS / MPO as sequences of exact-valued tensors and their dense meaning,   *)
(* defined by explicit index sums (independent of einsum / np.block):        *)
(*   Vec(psi)   dense vector,   Mat(op)   dense matrix,                      *)
(* plus the dense laws the arithmetic of pytenet has to obey and the         *)
(* block / Kronecker constructions that are supposed to realise them.        *)
(* Numbers are Gaussian integers <<re, im>> (Ring.tla).                      *)
(* An MPS tensor is indexed  A[s][a][b]  (physical, left bond, right bond),  *)
(* an MPO tensor  W[s][t][a][b]  (physical out, physical in, bonds);         *)
(* all indices 1-based; configurations are numbered row-major, first site    *)
(* most significant, like MPS.as_vector / MPO.as_matrix.                     *)
EXTENDS Ring, TLC

PowN(b, e) == LET F[k \in 0..e] == IF k = 0 THEN 1 ELSE b * F[k-1] IN F[e]
DigitAt(x, k, n, d) == (x \div PowN(d, n - k)) % d      \* k-th digit (1-based) of x < d^n, most significant first

(* ---- MPS ---- *)
PhysDim(As) == Len(As[1])
NSites(As) == Len(As)
BondL(T) == Len(T[1])
BondR(T) == Len(T[1][1])
Amp(As, x) ==
    LET n == Len(As)  d == PhysDim(As)
        V[i \in 0..n] == IF i = 0 THEN <<GOne>>
                         ELSE LET T == As[i][DigitAt(x, i, n, d) + 1]
                              IN [b \in 1..Len(T[1]) |-> GSum(Len(T), LAMBDA a : GMul(V[i-1][a], T[a][b]))]
    IN V[n][1]
Vec(As) == [x \in 1..PowN(PhysDim(As), Len(As)) |-> Amp(As, x - 1)]

(* ---- MPO ---- *)
MatEntry(Ws, x, y) ==
    LET n == Len(Ws)  d == Len(Ws[1])
        V[i \in 0..n] == IF i = 0 THEN <<GOne>>
                         ELSE LET T == Ws[i][DigitAt(x, i, n, d) + 1][DigitAt(y, i, n, d) + 1]
                              IN [b \in 1..Len(T[1]) |-> GSum(Len(T), LAMBDA a : GMul(V[i-1][a], T[a][b]))]
    IN V[n][1]
Mat(Ws) == LET dim == PowN(Len(Ws[1]), Len(Ws))
           IN [x \in 1..dim |-> [y \in 1..dim |-> MatEntry(Ws, x - 1, y - 1)]]

(* ---- dense algebra ---- *)
VAdd(u, v) == [k \in DOMAIN u |-> GAdd(u[k], v[k])]
VScale(c, v) == [k \in DOMAIN v |-> GMul(c, v[k])]
VDot(u, v) == GSum(Len(u), LAMBDA k : GMul(GConj(u[k]), v[k]))          \* first argument conjugated
MAdd(X, Y) == [r \in DOMAIN X |-> [c \in DOMAIN X[r] |-> GAdd(X[r][c], Y[r][c])]]
MScale(c, X) == [r \in DOMAIN X |-> [k \in DOMAIN X[r] |-> GMul(c, X[r][k])]]
MVec(X, v) == [r \in DOMAIN X |-> GSum(Len(v), LAMBDA k : GMul(X[r][k], v[k]))]
MTrace(X) == GSum(Len(X), LAMBDA k : X[k][k])
MIsHermitian(X) == \A r \in DOMAIN X : \A c \in DOMAIN X : X[r][c] = GConj(X[c][r])
MId(n, c) == [r \in 1..n |-> [k \in 1..n |-> IF r = k THEN c ELSE GZero]]

(* ---- the constructions of mps.py / mpo.py / operation.py as specifications on tensors ---- *)
(* add_mps: block structure (row / block-diagonal / column), second operand scaled at the first site *)
AddMPS(As, Bs, alpha) ==
    LET n == Len(As)
    IN IF n = 1 THEN <<[s \in DOMAIN As[1] |-> [a \in {1} |-> [b \in {1} |-> GAdd(As[1][s][1][1], GMul(alpha, Bs[1][s][1][1]))]]]>>
       ELSE [i \in 1..n |->
              LET A == As[i]  B == Bs[i]
                  la == BondL(A)  ra == BondR(A)  lb == BondL(B)  rb == BondR(B)
              IN [s \in DOMAIN A |->
                    IF i = 1 THEN [a \in {1} |-> [b \in 1..(ra + rb) |-> IF b <= ra THEN A[s][1][b] ELSE GMul(alpha, B[s][1][b - ra])]]
                    ELSE IF i = n THEN [a \in 1..(la + lb) |-> [b \in {1} |-> IF a <= la THEN A[s][a][1] ELSE B[s][a - la][1]]]
                    ELSE [a \in 1..(la + lb) |-> [b \in 1..(ra + rb) |->
                            IF a <= la /\ b <= ra THEN A[s][a][b]
                            ELSE IF a > la /\ b > ra THEN B[s][a - la][b - ra] ELSE GZero]]]]

(* apply_operator: bonds fused (operator bond major) *)
ApplyMPO(Ws, As) ==
    [i \in 1..Len(As) |->
        LET W == Ws[i]  A == As[i]  d == Len(A)
            wl == Len(W[1][1])  wr == Len(W[1][1][1])  al == BondL(A)  ar == BondR(A)
        IN [s \in 1..d |-> [ab \in 1..(wl * al) |-> [cd \in 1..(wr * ar) |->
              LET a == ((ab - 1) \div al) + 1  b == ((ab - 1) % al) + 1
                  c == ((cd - 1) \div ar) + 1  e == ((cd - 1) % ar) + 1
              IN GSum(d, LAMBDA t : GMul(W[s][t][a][c], A[t][b][e]))]]]]

(* multiply_mpo: composition along the physical dimension, bonds fused (first operand major) *)
MulMPO(Xs, Ys) ==
    [i \in 1..Len(Xs) |->
        LET X == Xs[i]  Y == Ys[i]  d == Len(X)
            xl == Len(X[1][1])  xr == Len(X[1][1][1])  yl == Len(Y[1][1])  yr == Len(Y[1][1][1])
        IN [s \in 1..d |-> [t \in 1..d |-> [ab \in 1..(xl * yl) |-> [cd \in 1..(xr * yr) |->
              LET a == ((ab - 1) \div yl) + 1  b == ((ab - 1) % yl) + 1
                  c == ((cd - 1) \div yr) + 1  e == ((cd - 1) % yr) + 1
              IN GSum(d, LAMBDA u : GMul(X[s][u][a][c], Y[u][t][b][e]))]]]]]

(* ---- environment blocks and effective local operators (operation.py) ---- *)
(* right block  R[a][w][b]  (ket bond, operator bond, bra bond) obtained from site tensors A (ket), B (bra), W *)
StepRight(A, B, W, R) ==
    [a \in 1..BondL(A) |-> [w \in 1..Len(W[1][1]) |-> [b \in 1..BondL(B) |->
        GSum(Len(A), LAMBDA s : GSum(Len(A), LAMBDA t :
          GSum(BondR(A), LAMBDA a2 : GSum(Len(W[1][1][1]), LAMBDA w2 : GSum(BondR(B), LAMBDA b2 :
            GMul(GMul(GMul(A[t][a][a2], W[s][t][w][w2]), GConj(B[s][b][b2])), R[a2][w2][b2]))))))]]]
StepLeft(A, B, W, Lb) ==
    [a2 \in 1..BondR(A) |-> [w2 \in 1..Len(W[1][1][1]) |-> [b2 \in 1..BondR(B) |->
        GSum(Len(A), LAMBDA s : GSum(Len(A), LAMBDA t :
          GSum(BondL(A), LAMBDA a : GSum(Len(W[1][1]), LAMBDA w : GSum(BondL(B), LAMBDA b :
            GMul(GMul(GMul(A[t][a][a2], W[s][t][w][w2]), GConj(B[s][b][b2])), Lb[a][w][b]))))))]]]
(* apply_local_hamiltonian: result[s][b][b2] *)
ApplyHeff(Lb, R, W, A) ==
    [s \in 1..Len(W) |-> [b \in 1..Len(Lb[1][1]) |-> [b2 \in 1..Len(R[1][1]) |->
        GSum(Len(A), LAMBDA t : GSum(BondL(A), LAMBDA a : GSum(BondR(A), LAMBDA a2 :
          GSum(Len(W[1][1]), LAMBDA w : GSum(Len(W[1][1][1]), LAMBDA w2 :
            GMul(GMul(GMul(Lb[a][w][b], W[s][t][w][w2]), A[t][a][a2]), R[a2][w2][b2]))))))]]]
(* apply_local_bond_contraction: result[b][b2] *)
ApplyKeff(Lb, R, C) ==
    [b \in 1..Len(Lb[1][1]) |-> [b2 \in 1..Len(R[1][1]) |->
        GSum(Len(C), LAMBDA a : GSum(Len(C[1]), LAMBDA a2 : GSum(Len(Lb[1]), LAMBDA w :
            GMul(GMul(Lb[a][w][b], C[a][a2]), R[a2][w][b2]))))]]
(* merge_mps_tensor_pair / merge_mpo_tensor_pair: physical indices combined row-major *)
MergeMPS2(A0, A1) ==
    LET d0 == Len(A0)  d1 == Len(A1)
    IN [s \in 1..(d0 * d1) |-> [a \in 1..BondL(A0) |-> [c \in 1..BondR(A1) |->
          GSum(BondR(A0), LAMBDA b : GMul(A0[((s - 1) \div d1) + 1][a][b], A1[((s - 1) % d1) + 1][b][c]))]]]
MergeMPO2(W0, W1) ==
    LET d0 == Len(W0)  d1 == Len(W1)
    IN [s \in 1..(d0 * d1) |-> [t \in 1..(d0 * d1) |-> [a \in 1..Len(W0[1][1]) |-> [c \in 1..Len(W1[1][1][1]) |->
          GSum(Len(W0[1][1][1]), LAMBDA b : GMul(W0[((s - 1) \div d1) + 1][((t - 1) \div d1) + 1][a][b],
                                                W1[((s - 1) % d1) + 1][((t - 1) % d1) + 1][b][c]))]]]]
(* inner product of two tensors of equal shape, first conjugated *)
TDot3(X, Y) == GSum(Len(X), LAMBDA s : GSum(Len(X[1]), LAMBDA a : GSum(Len(X[1][1]), LAMBDA b : GMul(GConj(X[s][a][b]), Y[s][a][b]))))
=============================================================================
