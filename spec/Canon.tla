-------------------------------- MODULE Canon --------------------------------
(* Canonicalisation sweeps of an MPS / MPO: MPS.orthonormalize,               *)
(* MPO.orthonormalize (mps.py:89-122, mpo.py:171-205) and MPS.compress        *)
(* (mps.py:124-160), projected to the discrete state the properties C01 / C13 *)
(* / C02 talk about:                                                          *)
(*   qD[i]   bond charge sequences,  form[i] in {"gen","L","R"},  pos,        *)
(*   zero    the represented object is the zero vector,                       *)
(*   sgn     sign of the trailing 1x1 factor,  scaleN/scaleD  for compress.   *)
(* One action per local factorization (the closed forms of BondOps.tla give   *)
(* the new bond charges), plus SignFlip and the final Return.                 *)
EXTENDS BondOpsPure, Sequences, TLC

CONSTANTS L, QD, DMAX, QB,        \* sites, physical charges (sequence), max bond dimension, bond charge alphabet
          Class,                   \* "mps" or "mpo"
          TolNum, TolDen,          \* compress: tolerance
          MaxCalls                 \* length of a history of calls on the same object (>= 1)

VARIABLES qD, form, mode, op, pos, zero, sgn, pc, qD0, cut, eps,
          calls, prev             \* history: number of calls so far, <<mode, op, user modified the tensors since>> of the previous call
vars == <<qD, form, mode, op, pos, zero, sgn, pc, qD0, cut, eps, calls, prev>>

(* physical leg(s) of one site as a charge vector: qd for an MPS, qd - qd' for an MPO *)
Phys == IF Class = "mps" THEN QD ELSE [k \in 1..(Len(QD) * Len(QD)) |-> QD[((k - 1) \div Len(QD)) + 1] - QD[((k - 1) % Len(QD)) + 1]]
(* qnumber_flatten([a, b]): row-major outer sum *)
Flat(a, b) == [k \in 1..(Len(a) * Len(b)) |-> a[((k - 1) \div Len(b)) + 1] + b[((k - 1) % Len(b)) + 1]]
Neg(a) == [k \in DOMAIN a |-> -a[k]]

RECURSIVE SortedSeq(_)
SortedSeq(S) == IF S = {} THEN <<>> ELSE LET m == CHOOSE x \in S : \A y \in S : x <= y IN <<m>> \o SortedSeq(S \ {m})

BondSeqs == UNION {[1..n -> QB] : n \in 1..DMAX}
Init == /\ qD \in [0..L -> BondSeqs]
        /\ Len(qD[0]) = 1 /\ Len(qD[L]) = 1
        /\ form = [i \in 1..L |-> "gen"]
        /\ mode \in {"left", "right"} /\ op \in {"ortho", "compress"}
        /\ (op = "compress" => Class = "mps")
        /\ pos = 0 /\ zero = FALSE /\ sgn = 1 /\ pc = "start" /\ qD0 = qD /\ cut = <<>> /\ eps = <<>>
        /\ calls = 1 /\ prev = <<>>

(* new bond charges after the local factorization of site i in direction dir: any sequence whose charge counts are *)
(* bounded by the block-wise min (equal for QR; fewer after a truncating SVD)                                      *)
Q0(i, dir) == IF dir = "left" THEN Flat(Phys, qD[i-1]) ELSE Flat(Phys, Neg(qD[i]))
Q1(i, dir) == IF dir = "left" THEN qD[i] ELSE Neg(qD[i-1])
NewBond(i, dir, full) ==
    LET q0 == Q0(i, dir)  q1 == Q1(i, dir)
        n  == PredD(q0, q1)
        xs == SortedSeq(Range(q0) \cup Range(q1) \cup {q0[1]})
    IN \* canonical representative: charges ascending with their multiplicities
       LET cnt(x) == PredCount(q0, q1, x)
           RECURSIVE Build(_)
           Build(k) == IF k > Len(xs) THEN <<>> ELSE [j \in 1..cnt(xs[k]) |-> xs[k]] \o Build(k + 1)
       IN Build(1)
IsDummy(i, dir) == CommonOf(Q0(i, dir), Q1(i, dir)) = {}
SetBond(i, dir, b) == IF dir = "left" THEN [qD EXCEPT ![i] = b] ELSE [qD EXCEPT ![i-1] = Neg(b)]

Start == /\ pc = "start"
         /\ pc' = IF op = "ortho" THEN "sweep" ELSE "pre"
         /\ pos' = IF (op = "ortho") = (mode = "left") THEN 1 ELSE L
         /\ UNCHANGED <<qD, form, mode, op, zero, sgn, qD0, cut, eps, calls, prev>>

SweepDir == IF pc = "pre" THEN (IF mode = "left" THEN "right" ELSE "left") ELSE mode

(* one local QR (orthonormalize, or the preparatory sweep of compress) or one local truncating SVD (compress) *)
LocalStep ==
    /\ pc \in {"sweep", "pre"} /\ pos \in 1..L
    /\ LET dir == SweepDir
           b0  == NewBond(pos, dir, TRUE)
       IN /\ IF pc = "sweep" /\ op = "compress"
             THEN \E keepn \in 1..Len(b0), e \in {0, 1, 2} :      \* truncation: a non-empty sub-multiset; e: discarded weight in units tol/2
                     /\ \E sub \in SUBSET (1..Len(b0)) : Cardinality(sub) = keepn
                            /\ qD' = SetBond(pos, dir, [k \in 1..keepn |-> b0[CHOOSE x \in sub : Cardinality({y \in sub : y < x}) = k - 1]])
                     /\ (keepn = Len(b0) => e = 0)
                     /\ eps' = Append(eps, e)
             ELSE qD' = SetBond(pos, dir, b0) /\ eps' = eps
          /\ zero' = (zero \/ IsDummy(pos, dir))
          /\ form' = [form EXCEPT ![pos] = IF dir = "left" THEN "L" ELSE "R"]
          /\ cut' = Append(cut, <<pc, pos>>)
          /\ LET nxt == IF dir = "left" THEN pos + 1 ELSE pos - 1
             IN IF nxt \in 1..L THEN pos' = nxt /\ pc' = pc /\ sgn' = sgn
                ELSE IF pc = "pre" THEN /\ pc' = "sweep" /\ pos' = (IF mode = "left" THEN 1 ELSE L) /\ sgn' = 1
                     ELSE /\ pc' = "sign" /\ pos' = pos /\ sgn' \in {-1, 1}
    /\ UNCHANGED <<mode, op, qD0, calls, prev>>

(* the trailing 1x1 factor gives the norm; a negative one is flipped into the boundary tensor *)
SignFlip == /\ pc = "sign"
            /\ sgn' = 1
            /\ pc' = "return"
            /\ UNCHANGED <<qD, form, mode, op, pos, zero, qD0, cut, eps, calls, prev>>

(* A history: after a call has returned the user may overwrite site tensors (poked: the forms are lost, the charges stay) *)
(* and call orthonormalize / compress again on the same object, in either direction.                                 *)
Again == /\ pc = "return" /\ calls < MaxCalls
         /\ \E m \in {"left", "right"}, o \in {"ortho", "compress"}, poked \in BOOLEAN :
               /\ (o = "compress" => Class = "mps")
               /\ mode' = m /\ op' = o
               /\ prev' = <<mode, op, poked>>
               /\ form' = IF poked THEN [i \in 1..L |-> "gen"] ELSE form
         /\ calls' = calls + 1 /\ pc' = "start" /\ pos' = 0 /\ sgn' = 1 /\ qD0' = qD /\ cut' = <<>> /\ eps' = <<>>
         /\ UNCHANGED <<qD, zero>>

Next == Start \/ LocalStep \/ SignFlip \/ Again
Spec == Init /\ [][Next]_vars

----------------------------------------------------------------------------
Done == pc = "return"
(* C01: every site tensor is an isometry in the chosen direction *)
FormsOK == Done => \A i \in 1..L : form[i] = (IF mode = "left" THEN "L" ELSE "R")
(* C01: the returned factor is non-negative *)
SignOK == Done => sgn = 1
(* C01 / C13: no bond larger than what the neighbouring dimensions allow, and never larger than before *)
DimsOK == (pc \in {"sweep", "pre", "sign", "return"}) =>
             \A i \in 0..L : /\ Len(qD[i]) >= 1
                             /\ (i >= 1 /\ form[i] = "L") => Len(qD[i]) <= Len(Phys) * Len(qD[i-1])
                             /\ (i < L /\ form[i+1] = "R") => Len(qD[i]) <= Len(Phys) * Len(qD[i+1])
NoGrowth == Done => \A i \in 0..L : Len(qD[i]) <= Len(qD0[i])
(* sweep order: each site exactly once per sweep, in order *)
OrderOK == Done =>
    LET n == Len(cut) IN
    /\ n = (IF op = "ortho" THEN L ELSE 2 * L)
    /\ \A k \in 1..L : cut[n - L + k][2] = (IF mode = "left" THEN k ELSE L + 1 - k)
    /\ op = "compress" => \A k \in 1..L : cut[k][2] = (IF mode = "left" THEN L + 1 - k ELSE k)
(* C02: the total charges of a non-zero state never change; the dummy branch is taken only on the zero state *)
BoundaryOK == (Done /\ ~zero) => (qD[0] = qD0[0] /\ qD[L] = qD0[L])
(* histories: a QR sweep in the direction of the previous call's final sweep finds the bond charges at their fixed point *)
(* (whatever the user did to the tensor entries in between: the QR never inspects ranks)                               *)
Idempotent == (Done /\ calls > 1 /\ op = "ortho" /\ prev[1] = mode) => qD = qD0
(* an untouched canonical object: a further call in the same direction leaves every form in place *)
(* C13: scale^2 = prod (1 - e_i) >= 1 - sum e_i >= 1 - L tol  with e_i in {0, tol/2, tol}, as integers over (2 TolDen)^n *)
RECURSIVE Prod(_, _)
Prod(s, k) == IF k > Len(s) THEN 1 ELSE (2 * TolDen - s[k] * TolNum) * Prod(s, k + 1)
RECURSIVE Pw(_, _)
Pw(b, e) == IF e = 0 THEN 1 ELSE b * Pw(b, e - 1)
SumE(s) == LET F[k \in 0..Len(s)] == IF k = 0 THEN 0 ELSE F[k-1] + s[k] IN F[Len(s)]
ScaleBound == (Done /\ op = "compress") =>
                 /\ Len(eps) = L
                 /\ Prod(eps, 1) * 1 >= Pw(2 * TolDen, L) - SumE(eps) * TolNum * Pw(2 * TolDen, L - 1)
                 /\ Prod(eps, 1) <= Pw(2 * TolDen, L)
=============================================================================
