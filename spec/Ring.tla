-------------------------------- MODULE Ring --------------------------------
(* Exact numbers in traces.  TLC has 32-bit integers and no floating point,  *)
(* so every number that enters a trace is snapped by the harness to a        *)
(* Gaussian integer <<re, im>> (after scaling by a logged integer factor).   *)
EXTENDS Integers, Sequences, FiniteSets

GZero == <<0, 0>>
GOne == <<1, 0>>
GInt(n) == <<n, 0>>
GAdd(a, b) == <<a[1] + b[1], a[2] + b[2]>>
GSub(a, b) == <<a[1] - b[1], a[2] - b[2]>>
GMul(a, b) == <<a[1] * b[1] - a[2] * b[2], a[1] * b[2] + a[2] * b[1]>>
GConj(a) == <<a[1], -a[2]>>
GNeg(a) == <<-a[1], -a[2]>>
GScale(n, a) == <<n * a[1], n * a[2]>>
GAbs2(a) == a[1] * a[1] + a[2] * a[2]
GIsZero(a) == a[1] = 0 /\ a[2] = 0

(* sum of F(i) over i in 1..n, Gaussian and plain integer *)
GSum(n, F(_)) == LET S[k \in 0..n] == IF k = 0 THEN GZero ELSE GAdd(S[k-1], F(k)) IN S[n]
ISum(n, F(_)) == LET S[k \in 0..n] == IF k = 0 THEN 0 ELSE S[k-1] + F(k) IN S[n]

(* matrices of Gaussian integers as sequences of rows *)
GMatMul(X, Y) == [r \in DOMAIN X |-> [c \in DOMAIN Y[1] |-> GSum(Len(Y), LAMBDA k : GMul(X[r][k], Y[k][c]))]]
GAdjoint(X) == [c \in DOMAIN X[1] |-> [r \in DOMAIN X |-> GConj(X[r][c])]]
GIdentity(n) == [r \in 1..n |-> [c \in 1..n |-> IF r = c THEN GOne ELSE GZero]]
=============================================================================
