---------------------------- MODULE OpChainsOps ----------------------------
(* Vocabulary of the operator-chain compiler OpGraph.from_opchains          *)
(* (pytenet/opgraph.py:257-359) and of MPO.from_opgraph (mpo.py:73-141):    *)
(* chains, half-chains, the site-wise bipartite repartition, the meaning of *)
(* an intermediate compiler state, and the layer tensors of a graph.        *)
EXTENDS GraphOps, BipartiteOps, SequencesExt

(* a chain is [oids, qnums, coeff, istart]; identity padding as OpChain.padded *)
PaddedOids(c, L, idOid)  == Repl(idOid, c.istart) \o c.oids \o Repl(idOid, L - Len(c.oids) - c.istart)
PaddedQnums(c, L)        == Repl(0, c.istart) \o c.qnums \o Repl(0, L - Len(c.oids) - c.istart)
ChainFits(c, L)          == Len(c.oids) >= 1 /\ Len(c.qnums) = Len(c.oids) + 1 /\ c.istart >= 0
                            /\ c.istart + Len(c.oids) <= L

(* what the chain list means: sum of coeff * identity-padded word *)
ChainsPoly(chains, L, idOid) ==
    PolyOfTerms([k \in DOMAIN chains |-> <<PaddedOids(chains[k], L, idOid), chains[k].coeff>>])

NonZero(chains) == SelectSeq(chains, LAMBDA c : c.coeff # 0)

(* half-chain: [oids, qnums, nidl]; the initial ones carry a dummy trailing identity *)
InitHalf(c, L, idOid, nstart) ==
    [oids |-> Append(PaddedOids(c, L, idOid), idOid), qnums |-> Append(PaddedQnums(c, L), 0), nidl |-> nstart]

(* polynomial of all paths from the start node to node n *)
PathsTo(G, n) == DenBack(G, n, Cardinality(DOMAIN G.nodes) + 1)

(* meaning of an intermediate compiler state: graph so far + half-chains not yet placed (without the dummy)   *)
(* + coefficients not yet placed on an edge                                                                  *)
StatePoly(G, hc, co) ==
    PolySumOver(DOMAIN hc,
        LAMBDA k : PolyScale(co[k], PolyMul(PathsTo(G, hc[k].nidl),
                                            PolyTerm(SubSeq(hc[k].oids, 1, Len(hc[k].oids) - 1), 1))))

(* ---- site-wise repartition (_site_partition_halfchains) ---- *)
UKey(h) == <<h.oids[1], h.qnums[1], h.qnums[2], h.nidl>>
VKey(h) == <<Tail(h.oids), Tail(h.qnums)>>
(* A partition is [us, vs, E, gamma]: us / vs sequences of pairwise different U / V keys, E a set of 0-based    *)
(* index pairs <<i, j>>, gamma a function on E.  IsPartition: it is the repartition of the half-chains hc, co.  *)
IndexOf(s, x) == (CHOOSE i \in DOMAIN s : s[i] = x) - 1
NoDup(s) == \A i, j \in DOMAIN s : i # j => s[i] # s[j]
IsPartition(P, hc, co) ==
    /\ NoDup(P.us) /\ NoDup(P.vs)
    /\ ToSet(P.us) = {UKey(hc[k]) : k \in DOMAIN hc}
    /\ ToSet(P.vs) = {VKey(hc[k]) : k \in DOMAIN hc}
    /\ P.E = {<<IndexOf(P.us, UKey(hc[k])), IndexOf(P.vs, VKey(hc[k]))>> : k \in DOMAIN hc}
    /\ DOMAIN P.gamma = P.E
    /\ \A e \in P.E : P.gamma[e] =
          FoldSet(LAMBDA k, acc : acc + co[k], 0,
                  {k \in DOMAIN hc : UKey(hc[k]) = P.us[e[1] + 1] /\ VKey(hc[k]) = P.vs[e[2] + 1]})
(* the partition in some arbitrary but fixed order *)
PartitionOf(hc, co) ==
    LET us == SetToSeq({UKey(hc[k]) : k \in DOMAIN hc})
        vs == SetToSeq({VKey(hc[k]) : k \in DOMAIN hc})
        E  == {<<IndexOf(us, UKey(hc[k])), IndexOf(vs, VKey(hc[k]))>> : k \in DOMAIN hc}
    IN [us |-> us, vs |-> vs, E |-> E,
        gamma |-> [e \in E |-> FoldSet(LAMBDA k, acc : acc + co[k], 0,
                       {k \in DOMAIN hc : UKey(hc[k]) = us[e[1] + 1] /\ VKey(hc[k]) = vs[e[2] + 1]})]]
Uidx(P) == 0..(Len(P.us) - 1)
Vidx(P) == 0..(Len(P.vs) - 1)

(* a maximum matching by repeated shortest augmentation (vertices are arbitrary values here) *)
RECURSIVE GrowMatching(_, _, _)
GrowMatching(E, mu, Vs) ==
    LET k == ShortestAugLen(E, mu, Vs)
    IN IF k = 0 THEN mu
       ELSE GrowMatching(E, Flip(mu, CHOOSE p \in AugPathsOfLen(E, mu, Vs, k) : TRUE), Vs)
MaxMatchSize(E, Us, Vs) == MatchSize(GrowMatching(E, EmptyMatching(Us), Vs))

(* a vertex cover of the size of a maximum matching is minimum (weak duality) *)
IsMinCover(E, Us, Vs, cu, cv) ==
    /\ cu \subseteq Us /\ cv \subseteq Vs
    /\ IsCover(E, cu, cv)
    /\ Cardinality(cu) + Cardinality(cv) = MaxMatchSize(E, Us, Vs)

(* ---- graph construction helpers ---- *)
WithNode(G, n, q) == [G EXCEPT !.nodes = [m \in DOMAIN G.nodes \cup {n} |->
                                            IF m = n THEN [q |-> q, ein |-> {}, eout |-> {}] ELSE G.nodes[m]]]
WithEdge(G, e, src, dst, ops) ==
    [G EXCEPT !.edges = [d \in DOMAIN G.edges \cup {e} |-> IF d = e THEN [src |-> src, dst |-> dst, ops |-> ops] ELSE G.edges[d]],
              !.nodes = [m \in DOMAIN G.nodes |->
                           LET a == IF m = src THEN [G.nodes[m] EXCEPT !.eout = @ \cup {e}] ELSE G.nodes[m]
                           IN IF m = dst THEN [a EXCEPT !.ein = @ \cup {e}] ELSE a]]

(* ---- MPO.from_opgraph: layers, bond charges, symbolic tensors ---- *)
NodesAtLevel(G, lev) == {nl[1] : nl \in {x \in Levels(G, 1) : x[2] = lev}}
LayerSeq(G, lev) == SortedSeqOf(NodesAtLevel(G, lev))
(* entry (a, b) of the tensor of site lev (1-based): formal sum of c * oid over all edges a -> b *)
EntryOps(G, a, b) ==
    FoldSet(LAMBDA e, acc : OpsAdd(acc, G.edges[e].ops), {}, {e \in G.nodes[a].eout : G.edges[e].dst = b})

(* polynomial obtained by multiplying out the symbolic layer tensors: must equal Den(G) *)
RECURSIVE MpoPolyFrom(_, _, _)
MpoPolyFrom(G, a, lev) ==
    IF lev = GraphLength(G) THEN PolyOne
    ELSE PolySumOver(NodesAtLevel(G, lev + 1),
            LAMBDA b : OpsPoly(EntryOps(G, a, b), MpoPolyFrom(G, b, lev + 1)))
MpoPoly(G) == MpoPolyFrom(G, G.term[1], 0)
=============================================================================
