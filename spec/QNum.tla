-------------------------------- MODULE QNum --------------------------------
(* The quantum-number algebra underneath every block-sparse routine           *)
(* (pytenet/qnumber.py): a tensor leg carries a vector of integer charges;    *)
(*   OuterSum(qs)[i1,...,ik] = qs[1][i1] + ... + qs[k][ik]                    *)
(*   Flatten(qs)  = OuterSum(qs) read in row-major order                      *)
(*   IsQSparse(A, qs) <=> every non-zero entry sits where OuterSum vanishes   *)
(* (signs are part of the charge vectors: outgoing legs are passed negated).  *)
(* The model checks the algebraic laws the library relies on when it fuses     *)
(* and splits legs; TraceQNum.tla binds the three functions to these           *)
(* definitions.                                                                *)
EXTENDS Integers, Sequences, FiniteSets, TLC

RECURSIVE ProdLen(_, _)
ProdLen(qs, k) == IF k > Len(qs) THEN 1 ELSE Len(qs[k]) * ProdLen(qs, k + 1)
(* multi-index of the flat position p (0-based) in row-major order *)
RECURSIVE IndexOf(_, _, _)
IndexOf(qs, p, k) ==        \* sequence of 1-based indices for legs k..Len(qs)
    IF k > Len(qs) THEN <<>>
    ELSE LET rest == ProdLen(qs, k + 1) IN <<(p \div rest) + 1>> \o IndexOf(qs, p % rest, k + 1)
RECURSIVE SumAt(_, _, _)
SumAt(qs, idx, k) == IF k > Len(qs) THEN 0 ELSE qs[k][idx[k]] + SumAt(qs, idx, k + 1)
Flatten(qs) == [p \in 1..ProdLen(qs, 1) |-> SumAt(qs, IndexOf(qs, p - 1, 1), 1)]
(* A given by the set of multi-indices of its non-zero entries *)
IsQSparse(support, qs) == \A idx \in support : SumAt(qs, idx, 1) = 0

CONSTANTS QALPH, MAXD, MAXLEGS
VARIABLES qs, done
vars == <<qs, done>>
Vecs == UNION {[1..n -> QALPH] : n \in 1..MAXD}
Init == qs \in UNION {[1..k -> Vecs] : k \in 1..MAXLEGS} /\ done = FALSE
Next == done = FALSE /\ done' = TRUE /\ UNCHANGED qs
Spec == Init /\ [][Next]_vars

(* fusing legs one after the other is the same as fusing them at once (row-major): Flatten([a, b, c]) = Flatten([Flatten([a, b]), c]) *)
FuseAssoc == Len(qs) >= 3 => Flatten(qs) = Flatten(<<Flatten(SubSeq(qs, 1, 2))>> \o SubSeq(qs, 3, Len(qs)))
FuseLen == Len(Flatten(qs)) = ProdLen(qs, 1)
(* negating every leg negates the fused charges; a tensor is sparse under qs iff it is under -qs *)
Neg(q) == [i \in DOMAIN q |-> -q[i]]
FuseNeg == Flatten([k \in DOMAIN qs |-> Neg(qs[k])]) = Neg(Flatten(qs))
(* matrix view: a tensor is sparse iff its matricization (first legs fused, last leg kept) is sparse under the fused charges *)
MatricizeOK ==
    Len(qs) >= 2 =>
        LET rows == Flatten(SubSeq(qs, 1, Len(qs) - 1))  cols == qs[Len(qs)]
        IN \A p \in 1..ProdLen(qs, 1) :
              LET r == ((p - 1) \div Len(cols)) + 1  c == ((p - 1) % Len(cols)) + 1
              IN (Flatten(qs)[p] = 0) <=> (rows[r] + cols[c] = 0)
=============================================================================
