-------------------------------- MODULE Sweep --------------------------------
(* The sweep protocols of pytenet/evolution.py (single-site and two-site     *)
(* TDVP) and pytenet/minimization.py (single-site and two-site DMRG).        *)
(*                                                                            *)
(* A protocol is a PROGRAM: the sequence of statement groups of the code's   *)
(* loops, transcribed by Prog(alg, L) below.  The machine executes it one    *)
(* micro-operation per action and keeps the discrete state the properties    *)
(* C08 / C09 / C10 depend on:                                                *)
(*   form[i]    canonical form of site tensor i  ("L", "R", "gen")           *)
(*   ver[i]     write version of site tensor i                               *)
(*   bl[i]      versions of sites 0..i-1 the left block BL[i] was built from *)
(*   br[i]      versions of sites i+1..L-1 the right block BR[i] was built   *)
(*              from (<<>> = never built)                                    *)
(*   tsite[i], tbond[i]   accumulated time in units of dt/2                  *)
(* WellPosed: every local (site / pair / bond) problem is posed in a mixed   *)
(* canonical form with environment blocks that are FRESH, i.e. built from    *)
(* the current tensors.  Under the kernel contract of the Hermitian Krylov   *)
(* exponential (unitary, commutes with the projected map) this is what makes *)
(* a TDVP step norm and energy conserving, and under "lowest Ritz value <=   *)
(* Rayleigh quotient of the start tensor" what makes DMRG energies monotone. *)
EXTENDS SweepOps, TLC

CONSTANTS LMAX, NMAX, ALGS,    \* all chain lengths 1..LMAX (two-site algorithms and DMRG: from 2), 1..NMAX steps / sweeps, algorithms in ALGS
          Bug                  \* "none"; negative controls: "skip_envl", "skip_envr", "half_full", "bond_plus"

VARIABLE cfg                   \* [alg, L, n]: chosen in Init, constant afterwards
L == cfg.L
NSTEPS == cfg.n
Alg == cfg.alg
Sites == 0..(L-1)

Body == BodyOf(Alg, L, Bug)
Prog == cfg.prog          \* = ProgOf(Alg, L, NSTEPS, Bug), computed once in Init

VARIABLES pc, form, ver, bl, br, tsite, tbond, okLocal, recorded, lastLocal
vars == <<cfg, pc, form, ver, bl, br, tsite, tbond, okLocal, recorded, lastLocal>>

VersL(i) == [k \in 1..i |-> ver[k - 1]]                     \* versions of sites 0..i-1
VersR(i) == [k \in 1..(L - 1 - i) |-> ver[i + k]]           \* versions of sites i+1..L-1
FreshL(i) == bl[i] = VersL(i)
FreshR(i) == br[i] = VersR(i)
LeftCanon(i) == \A k \in Sites : k < i => form[k] = "L"      \* all sites left of i
RightCanon(i) == \A k \in Sites : k > i => form[k] = "R"     \* all sites right of i

Init == /\ \E c \in {x \in [alg : ALGS, L : 1..LMAX, n : 1..NMAX] : x.alg = "tdvp1" \/ x.L >= 2} :
              cfg = [alg |-> c.alg, L |-> c.L, n |-> c.n, prog |-> ProgOf(c.alg, c.L, c.n, Bug)]
        /\ pc = 1
        /\ form = [i \in Sites |-> "gen"] /\ ver = [i \in Sites |-> 0]
        /\ bl = [i \in Sites |-> <<-1>>] /\ br = [i \in Sites |-> <<-1>>]
        /\ tsite = [i \in Sites |-> 0] /\ tbond = [i \in 0..(L - 2) |-> 0]
        /\ okLocal = TRUE /\ recorded = 0 /\ lastLocal = <<>>

Bump(S) == [i \in Sites |-> IF i \in S THEN ver[i] + 1 ELSE ver[i]]

Exec ==
    /\ pc <= Len(Prog)
    /\ cfg' = cfg
    /\ LET o == Prog[pc]  i == o.i IN
       /\ pc' = pc + 1
       /\ IF o.op = "initortho"
          THEN /\ form' = [k \in Sites |-> "R"] /\ ver' = Bump(Sites)
               /\ UNCHANGED <<bl, br, tsite, tbond, okLocal, recorded, lastLocal>>
          ELSE IF o.op = "initenv"
          THEN /\ br' = [k \in Sites |-> VersR(k)] /\ bl' = [bl EXCEPT ![0] = <<>>]
               /\ UNCHANGED <<form, ver, tsite, tbond, okLocal, recorded, lastLocal>>
          ELSE IF o.op = "site"
          THEN /\ okLocal' = (okLocal /\ LeftCanon(i) /\ RightCanon(i) /\ FreshL(i) /\ FreshR(i))
               /\ ver' = Bump({i}) /\ form' = [form EXCEPT ![i] = "gen"]
               /\ tsite' = [tsite EXCEPT ![i] = @ + o.f]
               /\ lastLocal' = <<"site", i>>
               /\ UNCHANGED <<bl, br, tbond, recorded>>
          ELSE IF o.op = "pair"
          THEN /\ okLocal' = (okLocal /\ LeftCanon(i) /\ RightCanon(i + 1) /\ FreshL(i) /\ FreshR(i + 1))
               /\ ver' = Bump({i, i + 1}) /\ form' = [form EXCEPT ![i] = "gen", ![i + 1] = "gen"]
               /\ tsite' = [tsite EXCEPT ![i] = @ + o.f, ![i + 1] = @ + o.f]
               /\ lastLocal' = <<"pair", i>>
               /\ UNCHANGED <<bl, br, tbond, recorded>>
          ELSE IF o.op = "bond"
          THEN /\ okLocal' = (okLocal /\ LeftCanon(i + 1) /\ RightCanon(i) /\ FreshL(i + 1) /\ FreshR(i))
               /\ tbond' = [tbond EXCEPT ![i] = @ + o.f]
               /\ lastLocal' = <<"bond", i>>
               /\ UNCHANGED <<form, ver, bl, br, tsite, recorded>>
          ELSE IF o.op = "qrl" THEN form' = [form EXCEPT ![i] = "L"] /\ ver' = Bump({i}) /\ UNCHANGED <<bl, br, tsite, tbond, okLocal, recorded, lastLocal>>
          ELSE IF o.op = "qrr" THEN form' = [form EXCEPT ![i] = "R"] /\ ver' = Bump({i}) /\ UNCHANGED <<bl, br, tsite, tbond, okLocal, recorded, lastLocal>>
          ELSE IF o.op = "splitl" THEN form' = [form EXCEPT ![i] = "L", ![i + 1] = "gen"] /\ ver' = Bump({i, i + 1}) /\ UNCHANGED <<bl, br, tsite, tbond, okLocal, recorded, lastLocal>>
          ELSE IF o.op = "splitr" THEN form' = [form EXCEPT ![i] = "gen", ![i + 1] = "R"] /\ ver' = Bump({i, i + 1}) /\ UNCHANGED <<bl, br, tsite, tbond, okLocal, recorded, lastLocal>>
          ELSE IF o.op = "absorb" THEN form' = [form EXCEPT ![i] = "gen"] /\ ver' = Bump({i}) /\ UNCHANGED <<bl, br, tsite, tbond, okLocal, recorded, lastLocal>>
          ELSE IF o.op = "envl" THEN bl' = [bl EXCEPT ![i] = VersL(i)] /\ UNCHANGED <<form, ver, br, tsite, tbond, okLocal, recorded, lastLocal>>
          ELSE IF o.op = "envr" THEN br' = [br EXCEPT ![i] = VersR(i)] /\ UNCHANGED <<form, ver, bl, tsite, tbond, okLocal, recorded, lastLocal>>
          ELSE IF o.op = "normalize" THEN form' = [form EXCEPT ![0] = "R"] /\ ver' = Bump({0}) /\ UNCHANGED <<bl, br, tsite, tbond, okLocal, recorded, lastLocal>>
          ELSE \* "record": the energy of the LAST local problem of the sweep is reported
               /\ recorded' = recorded + 1 /\ UNCHANGED <<form, ver, bl, br, tsite, tbond, okLocal, lastLocal>>
Next == Exec
Spec == Init /\ [][Next]_vars

----------------------------------------------------------------------------
Done == pc = Len(Prog) + 1
(* C08 / C10: every local problem is well posed (mixed canonical form, fresh environment blocks) *)
WellPosed == okLocal
(* C08 / C09: after each complete TDVP step every site has received +2 half steps; single-site: every bond -2; two-site: *)
(* the backward single-site steps take -2 from every interior site, which the pair steps have covered twice            *)
TimeOK == (Done /\ Alg = "tdvp1") => (/\ \A i \in Sites : tsite[i] = 2 * NSTEPS
                                      /\ \A b \in 0..(L - 2) : tbond[b] = -2 * NSTEPS)
TimeOK2 == (Done /\ Alg = "tdvp2") =>
              \A i \in Sites : tsite[i] = (IF i = 0 \/ i = L - 1 THEN 2 * NSTEPS ELSE 2 * NSTEPS)
(* C09: the local-problem word of one step is a palindrome (the integrator is symmetric) *)
Rev(s) == [k \in 1..Len(s) |-> s[Len(s) + 1 - k]]
Symmetric == Alg \in {"tdvp1", "tdvp2"} => LocalWord(Body) = Rev(LocalWord(Body))
(* C10: one energy is reported per sweep, and it is the one of the last local problem, which sits on site / pair 1 resp. 0 *)
RecordOK == (Done /\ Alg \in {"dmrg1", "dmrg2"}) => recorded = NSTEPS
LastLocalOK == (Done /\ Alg = "dmrg1" /\ L >= 2) => lastLocal = <<"site", 1>>
LastLocalOK2 == (Done /\ Alg = "dmrg2") => lastLocal = <<"pair", 0>>
(* the result is left in right-canonical form with the norm in the first tensor *)
FinalCanon == Done => \A k \in Sites : k >= 1 => form[k] = "R"
=============================================================================
