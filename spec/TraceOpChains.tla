--------------------------- MODULE TraceOpChains ---------------------------
(* Trace validation of OpGraph.from_opchains and MPO.from_opgraph            *)
(* (harness/props/c05.py).  One trace = one compilation:                     *)
(*   chains     L, idoid, the chain list                                     *)
(*   site       the anchored state at the start of a site iteration: the     *)
(*              half-chains and coefficients handed to                       *)
(*              _site_partition_halfchains and the graph built so far        *)
(*   partition  what _site_partition_halfchains returned                     *)
(*   cover      what minimum_vertex_cover returned for that bipartite graph  *)
(*   graph      the returned graph, is_consistent(), length                  *)
(*   mpo        MPO.from_opgraph of that graph under an integer operator map *)
(*   raise      an exception escaped                                         *)
(* The invariants of OpChains.tla (DenPreserved, PartitionOK, minimum cover, *)
(* WidthBound, ResultOK, MpoOK) are evaluated on the REAL states.            *)
EXTENDS OpChainsOps, TLC, Json, IOUtils

Data == JsonDeserialize(IOEnv.TRACE_FILE)
Tr == Data.traces
Strict == IF "strict" \in DOMAIN Data THEN Data.strict ELSE TRUE
Pid == IF "pid" \in DOMAIN Data THEN Data.pid ELSE "all"
WidthIsOwn == Strict \/ Pid \in {"C20", "all"}          \* the width bound is a clause of C20, not of C05
(* Two levels (harness/parallel.py): the site / partition / cover events bind the run to the compiler of OpChains.tla (its        *)
(* invariants on the anchored state at every site); C05 speaks about the returned graph and MPO only.  In pass 2 the harness      *)
(* removes those events; their diagnostics start with "spec: ".                                                                  *)

VARIABLES tid, l, pc, L, target, nz, hc, co, P, G
tvars == <<tid, l, pc, L, target, nz, hc, co, P, G>>

NoGraph == [nodes |-> <<>>, edges |-> <<>>, term |-> <<0, 0>>]
NoPart == [us |-> <<>>, vs |-> <<>>, E |-> {}, gamma |-> <<>>]
Rec == Tr[tid][l]
HasRec == tid <= Len(Tr) /\ l <= Len(Tr[tid])
Advance == l' = l + 1 /\ tid' = tid
Blank == pc' = "none" /\ L' = 0 /\ target' = {} /\ nz' = 0 /\ hc' = <<>> /\ co' = <<>> /\ P' = NoPart /\ G' = NoGraph
TraceInit == tid = 1 /\ l = 1 /\ pc = "none" /\ L = 0 /\ target = {} /\ nz = 0 /\ hc = <<>> /\ co = <<>> /\ P = NoPart /\ G = NoGraph

ChainOf(r) == [oids |-> r.oids, qnums |-> r.qnums, coeff |-> r.coeff, istart |-> r.istart]

TChains ==
    /\ HasRec /\ Rec.ev = "chains" /\ pc = "none"
    /\ Strict => Len(Rec.padded) = Len(Rec.chains)          \* the probe of OpChain.padded could be made
    /\ LET cs == [k \in DOMAIN Rec.chains |-> ChainOf(Rec.chains[k])]
       IN /\ \A k \in DOMAIN cs : ChainFits(cs[k], Rec.L)
          \* OpChain.padded(L, idoid) as computed by the code: identities and zero charges on both sides, start site 0
          /\ \A k \in (IF Strict /\ Len(Rec.padded) = Len(Rec.chains) THEN DOMAIN cs ELSE {}) :
                                   /\ Rec.padded[k].oids = PaddedOids(cs[k], Rec.L, Rec.idoid)
                                   /\ Rec.padded[k].qnums = PaddedQnums(cs[k], Rec.L)
                                   /\ Rec.padded[k].istart = 0 /\ Rec.padded[k].coeff = cs[k].coeff
                                   /\ Rec.padded[k].eq_self /\ ~Rec.padded[k].eq_shifted
          /\ target' = ChainsPoly(cs, Rec.L, Rec.idoid)
          /\ nz' = Len(NonZero(cs))
    /\ L' = Rec.L /\ pc' = "sites"
    /\ UNCHANGED <<hc, co, P, G>> /\ Advance

LoggedHC == [k \in DOMAIN Rec.hc |-> [oids |-> Rec.hc[k].oids, qnums |-> Rec.hc[k].qnums, nidl |-> Rec.hc[k].nidl]]

(* OpChains!DenPreserved and OpChains!WidthBound on the real compiler state *)
TSite ==
    /\ HasRec /\ Rec.ev = "site" /\ pc \in {"sites", "covered"}
    /\ JsonIdsUnique(Rec.g)
    /\ LET g == GraphOfJson(Rec.g)
       IN /\ Len(Rec.hc) = Len(Rec.co)
          /\ \A k \in DOMAIN Rec.hc : Rec.hc[k].nidl \in NodeIds(g)
          /\ RefsOK(g)
          /\ StatePoly(g, LoggedHC, Rec.co) = target
          /\ Cardinality({Rec.hc[k].nidl : k \in DOMAIN Rec.hc}) <= nz
          /\ G' = g
    /\ hc' = LoggedHC /\ co' = Rec.co
    /\ pc' = "site" /\ UNCHANGED <<L, target, nz, P>> /\ Advance

LoggedPart ==
    [us |-> [i \in DOMAIN Rec.us |-> <<Rec.us[i][1], Rec.us[i][2], Rec.us[i][3], Rec.us[i][4]>>],
     vs |-> [j \in DOMAIN Rec.vs |-> <<Rec.vs[j][1], Rec.vs[j][2]>>],
     E  |-> {<<Rec.edges[k][1], Rec.edges[k][2]>> : k \in DOMAIN Rec.edges},
     gamma |-> [e \in {<<Rec.edges[k][1], Rec.edges[k][2]>> : k \in DOMAIN Rec.edges} |->
                   Rec.gamma[CHOOSE k \in DOMAIN Rec.edges : <<Rec.edges[k][1], Rec.edges[k][2]>> = e]]]

(* OpChains!Partition: the logged repartition is the repartition of the logged half-chains *)
TPartition ==
    /\ HasRec /\ Rec.ev = "partition" /\ pc = "site"
    /\ Len(Rec.edges) = Len(Rec.gamma)
    /\ \A a, b \in DOMAIN Rec.edges : a # b => Rec.edges[a] # Rec.edges[b]
    /\ IsPartition(LoggedPart, hc, co)
    /\ P' = LoggedPart
    /\ pc' = "parted" /\ UNCHANGED <<L, target, nz, hc, co, G>> /\ Advance

(* OpChains!ChooseCover: the code's cover is one of the minimum vertex covers *)
TCover ==
    /\ HasRec /\ Rec.ev = "cover" /\ pc = "parted"
    /\ Cardinality(ToSet(Rec.uc)) = Len(Rec.uc) /\ Cardinality(ToSet(Rec.vc)) = Len(Rec.vc)
    /\ IsMinCover(P.E, Uidx(P), Vidx(P), ToSet(Rec.uc), ToSet(Rec.vc))
    /\ pc' = "covered" /\ UNCHANGED <<L, target, nz, hc, co, P, G>> /\ Advance

(* OpChains!ResultOK, DenPreserved at "done", WidthBoundDone on the returned graph *)
TGraph ==
    /\ HasRec /\ Rec.ev = "graph" /\ pc \in {"sites", "covered"}
    /\ JsonIdsUnique(Rec.g)
    /\ LET g == GraphOfJson(Rec.g)
       IN /\ JsonListsOK(Rec.g) /\ ConsistentG(g) /\ Rec.cons
          /\ Strict => UniqueOids(g)
          /\ GraphLength(g) = L /\ Rec.length = L
          /\ Den(g) = target
          /\ DenBackward(g) = target
          /\ WidthIsOwn => \A lev \in 0..L : Width(g, lev) <= (IF nz = 0 THEN 1 ELSE nz)
          /\ G' = g
    /\ pc' = "graph" /\ UNCHANGED <<L, target, nz, hc, co, P>> /\ Advance

(* MPO.from_opgraph (ToMPO): bond charges from the nodes, node map, tensor entries = sums of c * opmap[oid] *)
OpMat(oid) == Rec.opmap[CHOOSE k \in DOMAIN Rec.opmap : Rec.opmap[k].oid = oid].m
MapOf(n) == Rec.nidmap[CHOOSE k \in DOMAIN Rec.nidmap : Rec.nidmap[k][1] = n]
NodeAt(lev, idx) == CHOOSE n \in NodeIds(G) : MapOf(n)[2] = lev /\ MapOf(n)[3] = idx
SumOps(ops, s, t) == FoldSet(LAMBDA oc, acc : acc + oc[2] * OpMat(oc[1])[s][t], 0, ops)
TMpo ==
    /\ HasRec /\ Rec.ev = "mpo" /\ pc = "graph"
    /\ Len(Rec.A) = L /\ Len(Rec.qD) = L + 1
    \* node map: every node exactly once, at its level, indices 0..width-1
    /\ {Rec.nidmap[k][1] : k \in DOMAIN Rec.nidmap} = NodeIds(G)
    /\ Len(Rec.nidmap) = Cardinality(NodeIds(G))
    /\ \A n \in NodeIds(G) : MapOf(n)[2] = LevelOf(G, n) /\ MapOf(n)[3] \in 0..(Width(G, LevelOf(G, n)) - 1)
    /\ \A n, m \in NodeIds(G) : (n # m /\ MapOf(n)[2] = MapOf(m)[2]) => MapOf(n)[3] # MapOf(m)[3]
    \* bond charges are the node charges
    /\ \A lev \in 0..L : Len(Rec.qD[lev + 1]) = Width(G, lev)
    /\ \A n \in NodeIds(G) : Rec.qD[MapOf(n)[2] + 1][MapOf(n)[3] + 1] = G.nodes[n].q
    \* tensors
    /\ \A lev \in 1..L :
          /\ Len(Rec.A[lev]) = Rec.d
          /\ \A s \in 1..Rec.d : Len(Rec.A[lev][s]) = Rec.d
             /\ \A t \in 1..Rec.d : Len(Rec.A[lev][s][t]) = Width(G, lev - 1)
                /\ \A a \in 1..Width(G, lev - 1) : Len(Rec.A[lev][s][t][a]) = Width(G, lev)
                   /\ \A b \in 1..Width(G, lev) :
                        Rec.A[lev][s][t][a][b] = SumOps(EntryOps(G, NodeAt(lev - 1, a - 1), NodeAt(lev, b - 1)), s, t)
    /\ pc' = "mpo" /\ UNCHANGED <<L, target, nz, hc, co, P, G>> /\ Advance

TStep == TChains \/ TSite \/ TPartition \/ TCover \/ TGraph \/ TMpo

TNextTrace == /\ tid <= Len(Tr) /\ l > Len(Tr[tid]) /\ pc \in {"graph", "mpo"}
              /\ TLCSet(1, TLCGet(1) \cup {tid})
              /\ tid' = tid + 1 /\ l' = 1 /\ Blank

Diagnose ==
    IF Rec.ev = "raise" THEN Rec.exc
    ELSE IF Rec.ev = "chains" THEN
        (IF ~(\A k \in DOMAIN Rec.chains : ChainFits(ChainOf(Rec.chains[k]), Rec.L)) THEN "a chain of the input does not fit the lattice (generator problem)"
         ELSE IF Strict /\ (Len(Rec.padded) # Len(Rec.chains)) THEN "spec: OpChain.padded could not be probed on every chain"
         ELSE IF Strict THEN "spec: OpChain.padded / __eq__ differ from identity padding" ELSE "a property clause of this event failed (no specific diagnostic)")
    ELSE IF Rec.ev = "site" THEN
        (IF Strict /\ (~JsonIdsUnique(Rec.g) \/ ~RefsOK(GraphOfJson(Rec.g))) THEN "spec: partial graph malformed"
         ELSE IF Strict /\ (StatePoly(GraphOfJson(Rec.g), LoggedHC, Rec.co) # target) THEN "spec: DenPreserved violated: graph + pending half-chains no longer denote the chain sum"
         ELSE IF Strict THEN "spec: WidthBound violated: more nodes at a cut than chains" ELSE "a property clause of this event failed (no specific diagnostic)")
    ELSE IF Strict /\ (Rec.ev = "partition") THEN "spec: logged repartition is not the repartition of the half-chains"
    ELSE IF Strict /\ (Rec.ev = "cover") THEN "spec: cover is not a minimum vertex cover of the site graph"
    ELSE IF Rec.ev = "graph" THEN
        (IF ~JsonIdsUnique(Rec.g) THEN "duplicate ids"
         ELSE IF ~(JsonListsOK(Rec.g) /\ ConsistentG(GraphOfJson(Rec.g))) THEN "returned graph inconsistent"
         ELSE IF GraphLength(GraphOfJson(Rec.g)) # L \/ Rec.length # L THEN "wrong length"
         ELSE IF Den(GraphOfJson(Rec.g)) # target THEN "graph does not denote the sum of the padded chains"
         ELSE IF ~Rec.cons THEN "is_consistent() false on a consistent graph"
         ELSE IF Strict /\ (~UniqueOids(GraphOfJson(Rec.g))) THEN "spec: an operator id repeats on an edge"
         ELSE IF WidthIsOwn THEN (IF Pid \in {"C20", "all"} THEN "" ELSE "spec: (clause of C20) ") \o "more nodes at a cut than chains with non-zero coefficient"
         ELSE "a property clause of this event failed (no specific diagnostic)")
    ELSE IF Rec.ev = "mpo" THEN "MPO tensors / bond charges / node map differ from the graph"
    ELSE "unexpected event"

TReject == /\ tid <= Len(Tr)
           /\ \/ (HasRec /\ ~ENABLED TStep)
              \/ (l > Len(Tr[tid]) /\ pc \notin {"graph", "mpo"})
           /\ PrintT(<<"REJECT", tid, l, IF HasRec THEN Rec.ev ELSE "eot", IF HasRec THEN Diagnose ELSE "trace ended before the graph was returned">>)
           /\ tid' = tid + 1 /\ l' = 1 /\ Blank

TraceNext == TStep \/ TNextTrace \/ TReject
TraceSpec == TraceInit /\ [][TraceNext]_tvars
ASSUME TLCSet(1, {})
TraceDone == PrintT(<<"DONE", TLCGet(1)>>) /\ TLCGet("stats").diameter >= 1
=============================================================================
