------------------------------ MODULE TraceQNum ------------------------------
(* Trace validation of qnumber_outer_sum, qnumber_flatten and is_qsparse       *)
(* (pytenet/qnumber.py) against QNum.tla.  One trace = one call group:         *)
(*   flatten  qs out            out = qnumber_flatten(qs)                      *)
(*   outer    qs flat shape     qnumber_outer_sum(qs) flattened + its shape    *)
(*   sparse   qs support res    res = is_qsparse(A, qs), support = multi-      *)
(*            indices (1-based) of the non-zero entries of A                   *)
(* These functions are not named by one of the listed properties; every clause *)
(* is strict-only (diagnostics "spec: ...").                                   *)
EXTENDS Json, IOUtils, TLC, Integers, Sequences, FiniteSets

Data == JsonDeserialize(IOEnv.TRACE_FILE)
Tr == Data.traces
Strict == IF "strict" \in DOMAIN Data THEN Data.strict ELSE TRUE
VARIABLES tid, l
tvars == <<tid, l>>
Rec == Tr[tid][l]
HasRec == tid <= Len(Tr) /\ l <= Len(Tr[tid])
TraceInit == tid = 1 /\ l = 1

Q == INSTANCE QNum WITH QALPH <- {}, MAXD <- 0, MAXLEGS <- 0, qs <- <<>>, done <- FALSE
SupportSet == {Rec.support[k] : k \in DOMAIN Rec.support}
CallOK ==
    IF Rec.ev = "flatten" THEN Rec.out = Q!Flatten(Rec.qs)
    ELSE IF Rec.ev = "outer" THEN /\ Rec.flat = Q!Flatten(Rec.qs)
                                   /\ Rec.shape = [k \in DOMAIN Rec.qs |-> Len(Rec.qs[k])]
    ELSE IF Rec.ev = "sparse" THEN Rec.res = Q!IsQSparse(SupportSet, Rec.qs)
    ELSE FALSE
TCall == /\ HasRec /\ ((~Strict \/ CallOK) = TRUE) /\ l' = l + 1 /\ tid' = tid
TNextTrace == /\ tid <= Len(Tr) /\ l > Len(Tr[tid])
              /\ TLCSet(1, TLCGet(1) \cup {tid})
              /\ tid' = tid + 1 /\ l' = 1
Diagnose == IF Rec.ev = "raise" THEN "spec: qnumber function raised: " \o Rec.exc
            ELSE IF Rec.ev = "flatten" THEN "spec: qnumber_flatten differs from the row-major outer sum"
            ELSE IF Rec.ev = "outer" THEN "spec: qnumber_outer_sum differs from the outer sum (values or shape)"
            ELSE IF Rec.ev = "sparse" THEN "spec: is_qsparse disagrees with the additive rule on the non-zero entries"
            ELSE "spec: unexpected event"
TReject == /\ HasRec /\ ((~Strict \/ CallOK) = FALSE)
           /\ PrintT(<<"REJECT", tid, l, Rec.ev, Diagnose>>)
           /\ tid' = tid + 1 /\ l' = 1
TraceNext == TCall \/ TNextTrace \/ TReject
TraceSpec == TraceInit /\ [][TraceNext]_tvars
ASSUME TLCSet(1, {})
TraceDone == PrintT(<<"DONE", TLCGet(1)>>) /\ TLCGet("stats").diameter >= 1
=============================================================================
