----------------------------- MODULE Hamiltonian -----------------------------
(* Textbook definitions of the lattice Hamiltonians built by                  *)
(* pytenet/hamiltonian.py, as exact operators on the lattice Hilbert / Fock   *)
(* space (Gaussian integers after the stated scaling).  Written from the      *)
(* documented formulas, independent of the repository's test helpers:         *)
(*   spin / boson models: sums of products of local matrices;                 *)
(*   fermionic models: creation / annihilation operators acting on            *)
(*   occupation-number configurations, Jordan-Wigner sign = parity of the     *)
(*   occupied modes with a LARGER mode index (the convention of               *)
(*   linear_fermionic_mpo: identities to the left, Z string to the right).    *)
(* Scaling (so that everything is an integer):                                *)
(*   Ising x1;  XXZ spin-1/2 x4 (sigma = 2 S);  spin-1 and Bose-Hubbard are   *)
(*   similarity transformed by diag(site weights)^(x L) (no rank / equality   *)
(*   changes), Bose-Hubbard x2;  Fermi-Hubbard x4;  molecular x2.             *)
EXTENDS ChainOps, FiniteSetsExt, SequencesExt

(* ---- configurations ---- *)
Cfg(x, L, d) == [k \in 1..L |-> DigitAt(x, k, L, d)]        \* 0-based local states, first site most significant

(* ---- spin / boson terms: [c : Int, at : sequence of <<site, matrix>>] ---- *)
TermEntry(t, L, d, x, y) ==
    LET cx == Cfg(x, L, d)  cy == Cfg(y, L, d)
        touched == {t.at[k][1] : k \in DOMAIN t.at}
    IN IF \E s \in (1..L) \ touched : cx[s] # cy[s] THEN 0
       ELSE LET F[k \in 0..Len(t.at)] == IF k = 0 THEN t.c
                                         ELSE F[k-1] * t.at[k][2][cx[t.at[k][1]] + 1][cy[t.at[k][1]] + 1]
            IN F[Len(t.at)]
TermsEntry(ts, L, d, x, y) == LET S[k \in 0..Len(ts)] == IF k = 0 THEN 0 ELSE S[k-1] + TermEntry(ts[k], L, d, x, y) IN S[Len(ts)]
TermsMatrix(ts, L, d) == LET n == PowN(d, L) IN [x \in 1..n |-> [y \in 1..n |-> GInt(TermsEntry(ts, L, d, x - 1, y - 1))]]

Flatten(ss) == LET F[k \in 0..Len(ss)] == IF k = 0 THEN <<>> ELSE F[k-1] \o ss[k] IN F[Len(ss)]
Bonds(L, f(_)) == [j \in 1..(L-1) |-> f(j)]
Sites(L, f(_)) == [j \in 1..L |-> f(j)]

PauliX == <<<<0, 1>>, <<1, 0>>>>
PauliZ == <<<<1, 0>>, <<0, -1>>>>
Splus == <<<<0, 1>>, <<0, 0>>>>
Sminus == <<<<0, 0>>, <<1, 0>>>>

(* Ising:  sum J Z Z + h Z + g X *)
IsingTerms(L, J, h, g) ==
    Flatten(<<Bonds(L, LAMBDA j : [c |-> J, at |-> <<<<j, PauliZ>>, <<j+1, PauliZ>>>>]),
              Sites(L, LAMBDA j : [c |-> h, at |-> <<<<j, PauliZ>>>>]),
              Sites(L, LAMBDA j : [c |-> g, at |-> <<<<j, PauliX>>>>])>>)

(* 4 x XXZ spin-1/2:  J (XX + YY) + D ZZ - h Z  with X,Y,Z = sigma/2:  XX+YY = (S+S- + S-S+)/2 *)
XxzTerms(L, J, D, h) ==
    Flatten(<<Bonds(L, LAMBDA j : [c |-> 2 * J, at |-> <<<<j, Splus>>, <<j+1, Sminus>>>>]),
              Bonds(L, LAMBDA j : [c |-> 2 * J, at |-> <<<<j, Sminus>>, <<j+1, Splus>>>>]),
              Bonds(L, LAMBDA j : [c |-> D, at |-> <<<<j, PauliZ>>, <<j+1, PauliZ>>>>]),
              Sites(L, LAMBDA j : [c |-> -2 * h, at |-> <<<<j, PauliZ>>>>])>>)

(* spin-1, similarity transformed with site weights (2, sqrt2, 1): S+ -> 2 E(0,1) + 2 E(1,2),  S- -> E(1,0) + E(2,1) *)
S1plus == <<<<0, 2, 0>>, <<0, 0, 2>>, <<0, 0, 0>>>>
S1minus == <<<<0, 0, 0>>, <<1, 0, 0>>, <<0, 1, 0>>>>
S1z == <<<<1, 0, 0>>, <<0, 0, 0>>, <<0, 0, -1>>>>
(* 2 x spin-1 XXZ:  J (XX+YY) = J/2 (S+S- + S-S+) *)
Xxz1Terms(L, J, D, h) ==
    Flatten(<<Bonds(L, LAMBDA j : [c |-> J, at |-> <<<<j, S1plus>>, <<j+1, S1minus>>>>]),
              Bonds(L, LAMBDA j : [c |-> J, at |-> <<<<j, S1minus>>, <<j+1, S1plus>>>>]),
              Bonds(L, LAMBDA j : [c |-> 2 * D, at |-> <<<<j, S1z>>, <<j+1, S1z>>>>]),
              Sites(L, LAMBDA j : [c |-> -2 * h, at |-> <<<<j, S1z>>>>])>>)

(* Bose-Hubbard with local dimension d, similarity transformed with weights sqrt(n!):  b^dagger -> (n+1) E(n+1,n), b -> E(n,n+1) *)
Bdag(d) == [r \in 1..d |-> [c \in 1..d |-> IF r = c + 1 THEN c ELSE 0]]
Bann(d) == [r \in 1..d |-> [c \in 1..d |-> IF c = r + 1 THEN 1 ELSE 0]]
Bnum(d) == [r \in 1..d |-> [c \in 1..d |-> IF r = c THEN r - 1 ELSE 0]]
Bint(d) == [r \in 1..d |-> [c \in 1..d |-> IF r = c THEN (r - 1) * (r - 2) ELSE 0]]      \* n (n - 1)
(* 2 x Bose-Hubbard:  -t (b+ b + h.c.) + U/2 n (n-1) - mu n *)
BoseTerms(L, d, t, U, mu) ==
    Flatten(<<Bonds(L, LAMBDA j : [c |-> -2 * t, at |-> <<<<j, Bdag(d)>>, <<j+1, Bann(d)>>>>]),
              Bonds(L, LAMBDA j : [c |-> -2 * t, at |-> <<<<j, Bann(d)>>, <<j+1, Bdag(d)>>>>]),
              Sites(L, LAMBDA j : [c |-> U, at |-> <<<<j, Bint(d)>>>>]),
              Sites(L, LAMBDA j : [c |-> -2 * mu, at |-> <<<<j, Bnum(d)>>>>])>>)

(* ---- fermions: terms [c : Gaussian integer, ops : sequence of <<"c" | "a", mode>>] applied right to left ---- *)
(* occupation configuration of nm modes from a configuration index (mode 1 most significant) *)
Occ(x, nm) == [m \in 1..nm |-> DigitAt(x, m, nm, 2)]
ParityAbove(occ, m) == (LET S[k \in m..Len(occ)] == IF k = m THEN 0 ELSE S[k-1] + occ[k] IN S[Len(occ)]) % 2
(* apply one operator to a signed configuration [s : -1 | 0 | 1, occ] *)
ApplyOp(st, op) ==
    IF st.s = 0 THEN st
    ELSE LET m == op[2] IN
         IF op[1] = "c"
         THEN IF st.occ[m] = 1 THEN [s |-> 0, occ |-> st.occ]
              ELSE [s |-> IF ParityAbove(st.occ, m) = 1 THEN -st.s ELSE st.s, occ |-> [st.occ EXCEPT ![m] = 1]]
         ELSE IF st.occ[m] = 0 THEN [s |-> 0, occ |-> st.occ]
              ELSE [s |-> IF ParityAbove(st.occ, m) = 1 THEN -st.s ELSE st.s, occ |-> [st.occ EXCEPT ![m] = 0]]
ApplyOps(ops, occ) ==      \* ops[1] is the LEFTMOST operator of the product
    LET n == Len(ops)
        F[k \in 0..n] == IF k = 0 THEN [s |-> 1, occ |-> occ] ELSE ApplyOp(F[k-1], ops[n + 1 - k])
    IN F[n]
FermEntry(ts, nm, x, y) ==
    LET ox == Occ(x, nm)  oy == Occ(y, nm)
        S[k \in 0..Len(ts)] == IF k = 0 THEN GZero
                               ELSE LET r == ApplyOps(ts[k].ops, oy)
                                    IN IF r.s # 0 /\ r.occ = ox THEN GAdd(S[k-1], GScale(r.s, ts[k].c)) ELSE S[k-1]
    IN S[Len(ts)]
FermMatrix(ts, nm) == LET n == PowN(2, nm) IN [x \in 1..n |-> [y \in 1..n |-> FermEntry(ts, nm, x - 1, y - 1)]]

(* 4 x Fermi-Hubbard on L sites, modes (site j, spin up) = 2j-1, (site j, spin down) = 2j:                        *)
(*   -t sum (c+_{j s} c_{j+1 s} + h.c.) + U (n_up - 1/2)(n_dn - 1/2) - mu (n_up + n_dn)                            *)
(* 4 U (n_u - 1/2)(n_d - 1/2) = 4U n_u n_d - 2U n_u - 2U n_d + U                                                    *)
FermiHubbardTerms(L, t, U, mu) ==
    Flatten(<<Flatten(Bonds(L, LAMBDA j : <<[c |-> GInt(-4 * t), ops |-> <<<<"c", 2*j - 1>>, <<"a", 2*j + 1>>>>],
                                           [c |-> GInt(-4 * t), ops |-> <<<<"c", 2*j + 1>>, <<"a", 2*j - 1>>>>],
                                           [c |-> GInt(-4 * t), ops |-> <<<<"c", 2*j>>, <<"a", 2*j + 2>>>>],
                                           [c |-> GInt(-4 * t), ops |-> <<<<"c", 2*j + 2>>, <<"a", 2*j>>>>]>>)),
              Flatten(Sites(L, LAMBDA j : <<[c |-> GInt(4 * U), ops |-> <<<<"c", 2*j - 1>>, <<"a", 2*j - 1>>, <<"c", 2*j>>, <<"a", 2*j>>>>],
                                           [c |-> GInt(-2 * U - 4 * mu), ops |-> <<<<"c", 2*j - 1>>, <<"a", 2*j - 1>>>>],
                                           [c |-> GInt(-2 * U - 4 * mu), ops |-> <<<<"c", 2*j>>, <<"a", 2*j>>>>],
                                           [c |-> GInt(U), ops |-> <<>>]>>))>>)

(* sum_i f_i a^dagger_i  or  sum_i f_i a_i  (f Gaussian integers) *)
LinFermTerms(f, kind) == [i \in DOMAIN f |-> [c |-> f[i], ops |-> <<<<kind, i>>>>]]

(* 2 x molecular Hamiltonian:  sum t_ij a+_i a_j + 1/2 sum v_ijkl a+_i a+_j a_l a_k   (physicists' convention) *)
MolTerms(n, tk, vi) ==
    LET one == {<<i, j>> : i \in 1..n, j \in 1..n}
        two == {<<i, j, k, l>> : i \in 1..n, j \in 1..n, k \in 1..n, l \in 1..n}
        t1 == SetToSeq({q \in one : ~GIsZero(tk[q[1]][q[2]])})
        t2 == SetToSeq({q \in two : ~GIsZero(vi[q[1]][q[2]][q[3]][q[4]]) /\ q[1] # q[2] /\ q[3] # q[4]})
    IN [k \in DOMAIN t1 |-> [c |-> GScale(2, tk[t1[k][1]][t1[k][2]]), ops |-> <<<<"c", t1[k][1]>>, <<"a", t1[k][2]>>>>]]
       \o [k \in DOMAIN t2 |-> [c |-> vi[t2[k][1]][t2[k][2]][t2[k][3]][t2[k][4]],
                               ops |-> <<<<"c", t2[k][1]>>, <<"c", t2[k][2]>>, <<"a", t2[k][4]>>, <<"a", t2[k][3]>>>>]]
(* spin-orbital version: orbital p with spin s (0 up, 1 down) is mode 2p-1+s; t and v act diagonally in spin *)
SpinMolTerms(n, tk, vi) ==
    LET m(p, s) == 2 * p - 1 + s
        one == {<<i, j, s>> : i \in 1..n, j \in 1..n, s \in {0, 1}}
        two == {<<i, j, k, l, s, u>> : i \in 1..n, j \in 1..n, k \in 1..n, l \in 1..n, s \in {0, 1}, u \in {0, 1}}
        t1 == SetToSeq({q \in one : ~GIsZero(tk[q[1]][q[2]])})
        t2 == SetToSeq({q \in two : ~GIsZero(vi[q[1]][q[2]][q[3]][q[4]]) /\ m(q[1], q[5]) # m(q[2], q[6]) /\ m(q[3], q[5]) # m(q[4], q[6])})
    IN [k \in DOMAIN t1 |-> [c |-> GScale(2, tk[t1[k][1]][t1[k][2]]), ops |-> <<<<"c", m(t1[k][1], t1[k][3])>>, <<"a", m(t1[k][2], t1[k][3])>>>>]]
       \o [k \in DOMAIN t2 |-> [c |-> vi[t2[k][1]][t2[k][2]][t2[k][3]][t2[k][4]],
                               ops |-> <<<<"c", m(t2[k][1], t2[k][5])>>, <<"c", m(t2[k][2], t2[k][6])>>,
                                         <<"a", m(t2[k][4], t2[k][6])>>, <<"a", m(t2[k][3], t2[k][5])>>>>]]

(* ---- properties of an operator ---- *)
IsHermitianM(X) == \A r \in DOMAIN X : \A c \in DOMAIN X : X[r][c] = GConj(X[c][r])
(* Hermiticity of the operator whose similarity transform by diag(sqrt(w2))^(x L) is X:  X[r][c] W(c) = conj(X[c][r]) W(r) *)
CfgWeight(x, L, d, w2) == LET c == Cfg(x, L, d)  F[k \in 0..L] == IF k = 0 THEN 1 ELSE F[k-1] * w2[c[k] + 1] IN F[L]
IsHermitianUpTo(X, L, d, w2) ==
    \A r \in DOMAIN X : \A c \in DOMAIN X : GScale(CfgWeight(c - 1, L, d, w2), X[r][c]) = GScale(CfgWeight(r - 1, L, d, w2), GConj(X[c][r]))
(* total charge of a configuration under per-site charges qd (0-based local states) *)
CfgCharge(x, L, d, qd) == LET c == Cfg(x, L, d)  S[k \in 0..L] == IF k = 0 THEN 0 ELSE S[k-1] + qd[c[k] + 1] IN S[L]
(* the operator only connects basis states whose total charges differ by `shift` *)
ConservesM(X, L, d, qd, shift) ==
    \A r \in DOMAIN X : \A c \in DOMAIN X : GIsZero(X[r][c]) \/ CfgCharge(r - 1, L, d, qd) - CfgCharge(c - 1, L, d, qd) = shift
=============================================================================
