----------------------------- MODULE GraphOps -----------------------------
(* Operator graphs (pytenet/opgraph.py) as values, their meaning in the    *)
(* free algebra, and the structural predicates the properties talk about.  *)
(*                                                                          *)
(* A graph is a record                                                      *)
(*   [nodes : nid -> [q, ein, eout],  edges : eid -> [src, dst, ops],       *)
(*    term  : <<start nid, end nid>>]                                       *)
(* with ein/eout sets of edge ids and ops a set of <<oid, coeff>> pairs     *)
(* (one pair per oid; a zero coefficient may be present, as in the code).   *)
(*                                                                          *)
(* The operator denoted by a graph is the non-commutative polynomial        *)
(*   den(G) = sum over paths start -> end of  prod coeff * word of oids     *)
(* represented canonically as a set of <<word, coeff>> pairs with non-zero  *)
(* coefficients and pairwise different words, so that equality of           *)
(* polynomials is equality of sets.  This is exact and independent of any   *)
(* choice of local operator matrices.                                       *)
EXTENDS Integers, Sequences, FiniteSets, FiniteSetsExt

----------------------------------------------------------------------------
(* polynomials in the free algebra *)
Words(p) == {t[1] : t \in p}
Coef(p, w) == IF \E t \in p : t[1] = w THEN (CHOOSE t \in p : t[1] = w)[2] ELSE 0
PolyAdd(p, q) == {t \in {<<w, Coef(p, w) + Coef(q, w)>> : w \in Words(p) \cup Words(q)} : t[2] # 0}
PolyScale(c, p) == IF c = 0 THEN {} ELSE {<<t[1], c * t[2]>> : t \in p}
PolyPrefix(oid, c, p) == IF c = 0 THEN {} ELSE {<<<<oid>> \o t[1], c * t[2]>> : t \in p}
PolySuffix(p, oid, c) == IF c = 0 THEN {} ELSE {<<Append(t[1], oid), c * t[2]>> : t \in p}
PolyOne == {<< <<>>, 1 >>}
PolyTerm(w, c) == IF c = 0 THEN {} ELSE {<<w, c>>}
RevSeq(s) == [i \in 1..Len(s) |-> s[Len(s) + 1 - i]]
PolyReverse(p) == {<<RevSeq(t[1]), t[2]>> : t \in p}
(* product of polynomials (concatenation of words) *)
PolyMul(p, q) ==
    FoldSet(LAMBDA t, acc : PolyAdd(acc, {<<t[1] \o s[1], t[2] * s[2]>> : s \in q}), {}, p)
(* sum of a family of polynomials indexed by a set (the index keeps equal polynomials apart) *)
PolySumOver(S, F(_)) == FoldSet(LAMBDA x, acc : PolyAdd(acc, F(x)), {}, S)
(* the polynomial of a sequence of <<word, coeff>> terms (duplicates accumulate) *)
PolyOfTerms(ts) == FoldSet(LAMBDA i, acc : PolyAdd(acc, PolyTerm(ts[i][1], ts[i][2])), {}, DOMAIN ts)
Repl(x, n) == [i \in 1..n |-> x]
RECURSIVE SortedSeqOf(_)
SortedSeqOf(S) == IF S = {} THEN <<>> ELSE <<Min(S)>> \o SortedSeqOf(S \ {Min(S)})

----------------------------------------------------------------------------
(* denotation of a graph *)
OpsPoly(ops, tail) == PolySumOver(ops, LAMBDA oc : PolyPrefix(oc[1], oc[2], tail))

RECURSIVE DenFrom(_, _, _)
DenFrom(G, n, fuel) ==
    IF n = G.term[2] THEN PolyOne
    ELSE IF fuel = 0 THEN {}
    ELSE PolySumOver(G.nodes[n].eout,
            LAMBDA e : OpsPoly(G.edges[e].ops, DenFrom(G, G.edges[e].dst, fuel - 1)))

Den(G) == DenFrom(G, G.term[1], Cardinality(DOMAIN G.nodes) + 1)

(* the same polynomial read from the end node backwards: must agree on a consistent graph *)
RECURSIVE DenBack(_, _, _)
DenBack(G, n, fuel) ==
    IF n = G.term[1] THEN PolyOne
    ELSE IF fuel = 0 THEN {}
    ELSE PolySumOver(G.nodes[n].ein,
            LAMBDA e : PolySumOver(G.edges[e].ops,
                          LAMBDA oc : PolySuffix(DenBack(G, G.edges[e].src, fuel - 1), oc[1], oc[2])))

DenBackward(G) == DenBack(G, G.term[2], Cardinality(DOMAIN G.nodes) + 1)

----------------------------------------------------------------------------
(* structure *)
NodeIds(G) == DOMAIN G.nodes
EdgeIds(G) == DOMAIN G.edges

RefsOK(G) ==
    /\ \A n \in NodeIds(G) :
          /\ \A e \in G.nodes[n].ein  : e \in EdgeIds(G) /\ G.edges[e].dst = n
          /\ \A e \in G.nodes[n].eout : e \in EdgeIds(G) /\ G.edges[e].src = n
    /\ \A e \in EdgeIds(G) :
          /\ G.edges[e].src \in NodeIds(G) /\ G.edges[e].dst \in NodeIds(G)
          /\ e \in G.nodes[G.edges[e].src].eout
          /\ e \in G.nodes[G.edges[e].dst].ein

TermOK(G) ==
    /\ G.term[1] \in NodeIds(G) /\ G.term[2] \in NodeIds(G)
    /\ G.nodes[G.term[1]].ein = {}
    /\ G.nodes[G.term[2]].eout = {}

UniqueOids(G) == \A e \in EdgeIds(G) : \A a, b \in G.edges[e].ops : a[1] = b[1] => a = b

(* <<nid, level>> pairs reachable from a terminal; dir = 1: forward from start, 0: backward from end *)
RECURSIVE LevelsFrom(_, _, _, _, _)
LevelsFrom(G, dir, frontier, acc, fuel) ==
    IF frontier = {} \/ fuel = 0 THEN acc \cup frontier
    ELSE LET nxt == UNION {{<<IF dir = 1 THEN G.edges[e].dst ELSE G.edges[e].src, nl[2] + 1>> :
                              e \in (IF dir = 1 THEN G.nodes[nl[1]].eout ELSE G.nodes[nl[1]].ein)} : nl \in frontier}
         IN LevelsFrom(G, dir, nxt \ acc, acc \cup frontier, fuel - 1)

Levels(G, dir) == LevelsFrom(G, dir, {<<G.term[IF dir = 1 THEN 1 ELSE 2], 0>>}, {}, Cardinality(NodeIds(G)) + 1)

LevelsOK(G) == \A dir \in {0, 1} : \A a, b \in Levels(G, dir) : a[1] = b[1] => a[2] = b[2]

(* independent transcription of OpGraph.is_consistent() (key/id equality and sortedness of the operator  *)
(* lists are flags computed from the raw logged data, see TraceOpGraph)                                  *)
ConsistentG(G) == IF RefsOK(G) /\ TermOK(G) THEN LevelsOK(G) ELSE FALSE

LevelOf(G, n) == (CHOOSE nl \in Levels(G, 1) : nl[1] = n)[2]
GraphLength(G) == LevelOf(G, G.term[2])
Width(G, lev) == Cardinality({nl \in Levels(G, 1) : nl[2] = lev})
Widths(G) == [lev \in 0..GraphLength(G) |-> Width(G, lev)]
NumNodes(G) == Cardinality(NodeIds(G))
NumEdges(G) == Cardinality(EdgeIds(G))

(* every node lies on a path between the terminals *)
AllConnected(G) == {nl[1] : nl \in Levels(G, 1)} = NodeIds(G) /\ {nl[1] : nl \in Levels(G, 0)} = NodeIds(G)

----------------------------------------------------------------------------
(* elementary updates *)
OpsAdd(o1, o2) ==
    LET ids == {t[1] : t \in o1} \cup {t[1] : t \in o2}
        c(o, i) == IF \E t \in o : t[1] = i THEN (CHOOSE t \in o : t[1] = i)[2] ELSE 0
    IN {<<i, c(o1, i) + c(o2, i)>> : i \in ids}

RestrictTo(f, S) == [x \in S |-> f[x]]

(* graph from JSON as logged by the harness:                                                             *)
(* [nodes |-> <<[id, q, ein, eout], ...>>, edges |-> <<[id, src, dst, ops |-> <<<<oid, c>>, ...>>], ...>>, term] *)
SeqSet(s) == {s[i] : i \in 1..Len(s)}
GraphOfJson(j) ==
    [nodes |-> [n \in {j.nodes[i].id : i \in 1..Len(j.nodes)} |->
                  LET r == j.nodes[CHOOSE i \in 1..Len(j.nodes) : j.nodes[i].id = n]
                  IN [q |-> r.q, ein |-> SeqSet(r.ein), eout |-> SeqSet(r.eout)]],
     edges |-> [e \in {j.edges[i].id : i \in 1..Len(j.edges)} |->
                  LET r == j.edges[CHOOSE i \in 1..Len(j.edges) : j.edges[i].id = e]
                  IN [src |-> r.src, dst |-> r.dst, ops |-> {<<r.ops[k][1], r.ops[k][2]>> : k \in 1..Len(r.ops)}]],
     term |-> <<j.term[1], j.term[2]>>]

(* flags of the raw logged data that the set-based record cannot express *)
JsonIdsUnique(j) ==
    /\ \A a, b \in 1..Len(j.nodes) : a # b => j.nodes[a].id # j.nodes[b].id
    /\ \A a, b \in 1..Len(j.edges) : a # b => j.edges[a].id # j.edges[b].id
JsonListsOK(j) ==
    /\ \A a \in 1..Len(j.nodes) :
          /\ Cardinality(SeqSet(j.nodes[a].ein)) = Len(j.nodes[a].ein)
          /\ Cardinality(SeqSet(j.nodes[a].eout)) = Len(j.nodes[a].eout)
          /\ j.nodes[a].key = j.nodes[a].id
    /\ \A a \in 1..Len(j.edges) :
          /\ j.edges[a].key = j.edges[a].id
          /\ \A k \in 1..(Len(j.edges[a].ops) - 1) :
                IF j.edges[a].ops[k][1] = j.edges[a].ops[k+1][1] THEN j.edges[a].ops[k][2] <= j.edges[a].ops[k+1][2]
                ELSE j.edges[a].ops[k][1] < j.edges[a].ops[k+1][1]
=============================================================================
