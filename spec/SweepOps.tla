------------------------------ MODULE SweepOps ------------------------------
(* The sweep programs of TDVP / DMRG as pure operators (shared by Sweep.tla  *)
(* and TraceSweep.tla).                                                      *)
EXTENDS Integers, Sequences

(* ---- programs (pure operators of the algorithm name, the chain length LL and the number of steps / sweeps) ---- *)
Op(o, i, f) == [op |-> o, i |-> i, f |-> f]
Cat(ss) == LET F[k \in 0..Len(ss)] == IF k = 0 THEN <<>> ELSE F[k-1] \o ss[k] IN F[Len(ss)]
Up(a, b, F(_)) == Cat([k \in 1..(b - a + 1) |-> F(a + k - 1)])          \* F(a) \o F(a+1) \o ... \o F(b); empty if b < a
Down(a, b, F(_)) == Cat([k \in 1..(a - b + 1) |-> F(a - k + 1)])        \* F(a) \o F(a-1) \o ... \o F(b); empty if a < b
EnvL(i, bug) == IF bug = "skip_envl" /\ i = 2 THEN <<>> ELSE <<Op("envl", i, 0)>>
EnvR(i, bug) == IF bug = "skip_envr" /\ i = 0 THEN <<>> ELSE <<Op("envr", i, 0)>>
FullF(bug) == IF bug = "half_full" THEN 1 ELSE 2
BondF(bug) == IF bug = "bond_plus" THEN 1 ELSE -1

(* evolution.py:56-98 *)
Tdvp1Step(LL, bug) ==
    Up(0, LL - 2, LAMBDA i : <<Op("site", i, 1), Op("qrl", i, 0)>> \o EnvL(i + 1, bug) \o <<Op("bond", i, BondF(bug)), Op("absorb", i + 1, 0)>>)
    \o <<Op("site", LL - 1, FullF(bug))>>
    \o Down(LL - 1, 1, LAMBDA i : <<Op("qrr", i, 0)>> \o EnvR(i - 1, bug) \o <<Op("bond", i - 1, BondF(bug)), Op("absorb", i - 1, 0), Op("site", i - 1, 1)>>)
(* evolution.py:145-185 *)
Tdvp2Step(LL, bug) ==
    Up(0, LL - 3, LAMBDA i : <<Op("pair", i, 1), Op("splitl", i, 0)>> \o EnvL(i + 1, bug) \o <<Op("site", i + 1, -1)>>)
    \o <<Op("pair", LL - 2, FullF(bug)), Op("splitr", LL - 2, 0)>> \o EnvR(LL - 2, bug)
    \o Down(LL - 3, 0, LAMBDA i : <<Op("site", i + 1, -1), Op("pair", i, 1), Op("splitr", i, 0)>> \o EnvR(i, bug))
(* minimization.py:56-82 *)
Dmrg1Sweep(LL, bug) ==
    Up(0, LL - 2, LAMBDA i : <<Op("site", i, 0), Op("qrl", i, 0), Op("absorb", i + 1, 0)>> \o EnvL(i + 1, bug))
    \o Down(LL - 1, 1, LAMBDA i : <<Op("site", i, 0), Op("qrr", i, 0), Op("absorb", i - 1, 0)>> \o EnvR(i - 1, bug))
    \o <<Op("normalize", 0, 0), Op("record", 0, 0)>>
(* minimization.py:128-160 *)
Dmrg2Sweep(LL, bug) ==
    Up(0, LL - 3, LAMBDA i : <<Op("pair", i, 0), Op("splitl", i, 0)>> \o EnvL(i + 1, bug))
    \o Down(LL - 2, 0, LAMBDA i : <<Op("pair", i, 0), Op("splitr", i, 0)>> \o EnvR(i, bug))
    \o <<Op("normalize", 0, 0), Op("record", 0, 0)>>
BodyOf(alg, LL, bug) == IF alg = "tdvp1" THEN Tdvp1Step(LL, bug) ELSE IF alg = "tdvp2" THEN Tdvp2Step(LL, bug)
                        ELSE IF alg = "dmrg1" THEN Dmrg1Sweep(LL, bug) ELSE Dmrg2Sweep(LL, bug)
ProgOf(alg, LL, n, bug) == <<Op("initortho", 0, 0), Op("initenv", 0, 0)>> \o Cat([k \in 1..n |-> BodyOf(alg, LL, bug)])
(* the local problems of a program, in order: what the wrappers of the harness observe *)
IsLocal(o) == o.op \in {"site", "pair", "bond"}
LocalWord(p) == SelectSeq(p, IsLocal)
=============================================================================
