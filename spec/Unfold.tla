------------------------------- MODULE Unfold -------------------------------
(* OpGraph.from_optrees and OpGraph.from_automaton as state machines:        *)
(*   AddTree / AddAutEdge   the input program is put together (build phase)  *)
(*   UnfoldTrees            recursive subtree insertion with identity        *)
(*                          padding (UnfoldOps!TreesGraph)                   *)
(*   UnfoldAut              reachability pruning and layer-wise unrolling    *)
(*                          (UnfoldOps!AutGraph)                             *)
(*   SimplifyStep           the merges of the final simplify() (trees only)  *)
(* Invariant: the graph denotes the symbolic meaning of the input program    *)
(* (sum of identity-padded trees / sum over automaton paths), is consistent  *)
(* and has the requested length; dead automaton states never become nodes.   *)
EXTENDS UnfoldOps, OpGraphOps

CONSTANTS Mode, L, OIDS, IdOid, COEFS, QS,
          MaxTrees, TreeHeight, MaxBranch,
          AutN, MaxAutEdges, ACTP, COEFP

VARIABLES inp, G, target, pc
vars == <<inp, G, target, pc>>

RECURSIVE TreesUpTo(_)
TreesUpTo(h) ==
    IF h = 0 THEN {[q |-> q, ch |-> <<>>] : q \in QS}
    ELSE LET sub == TreesUpTo(h - 1)
             edge == [oid : OIDS, c : COEFS, node : sub]
         IN TreesUpTo(0) \cup UNION {{[q |-> q, ch |-> s] : q \in QS, s \in [1..b -> edge]} : b \in 1..MaxBranch}

TreeSet == {tr \in [root : TreesUpTo(TreeHeight), istart : 0..(L-1)] : TreeOK(tr, L)}

(* activity / coefficient tables of automaton edges *)
ActTable(p) == [i \in 1..L |-> IF p = "all" THEN TRUE ELSE IF p = "even" THEN (i - 1) % 2 = 0
                               ELSE IF p = "first" THEN i = 1 ELSE IF p = "notlast" THEN i < L ELSE i = L]
CoefAt(p, i) == IF p = "one" THEN 1 ELSE IF p = "site" THEN i ELSE IF p = "neg" THEN -1 ELSE 2
AutNodes == 0..(AutN - 1)
AutEdgeSet == [src : AutNodes, dst : AutNodes, oid : OIDS, ap : ACTP, cp : COEFP]
EdgeLE(a, b) == \/ a.src < b.src \/ (a.src = b.src /\ a.dst < b.dst)
                \/ (a.src = b.src /\ a.dst = b.dst /\ a.oid <= b.oid)
AutOf(es) == [nodes |-> [n \in AutNodes |-> [q |-> 0]],
              edges |-> [e \in DOMAIN es |-> [src |-> es[e].src, dst |-> es[e].dst, act |-> ActTable(es[e].ap),
                                             ops |-> [i \in 1..L |-> {<<es[e].oid, CoefAt(es[e].cp, i)>>}]]],
              term |-> <<0, 1>>]

NoGraph == [nodes |-> <<>>, edges |-> <<>>, term |-> <<0, 0>>]
Init == inp = <<>> /\ G = NoGraph /\ target = {} /\ pc = "build"

AddTree(tr) == /\ Mode = "trees" /\ pc = "build" /\ Len(inp) < MaxTrees
               /\ inp' = Append(inp, tr) /\ UNCHANGED <<G, target, pc>>
AddAutEdge(e) == /\ Mode = "autop" /\ pc = "build" /\ Len(inp) < MaxAutEdges
                 /\ Len(inp) > 0 => EdgeLE(inp[Len(inp)], e)
                 /\ inp' = Append(inp, e) /\ UNCHANGED <<G, target, pc>>

UnfoldTrees == /\ Mode = "trees" /\ pc = "build" /\ Len(inp) > 0
               /\ G' = TreesGraph(inp, L, IdOid)
               /\ target' = TreesPoly(inp, L, IdOid)
               /\ pc' = "unfolded" /\ UNCHANGED inp

UnfoldAut == /\ Mode = "autop" /\ pc = "build"
             /\ LET A == AutOf(inp)
                IN IF AutHasPath(A, L)
                   THEN G' = AutGraph(A, L) /\ target' = AutPoly(A, L) /\ pc' = "done"
                   ELSE pc' = "nopath" /\ UNCHANGED <<G, target>>
             /\ UNCHANGED inp

(* one merge of the final simplify(); every order of merges is explored in OpGraph.tla (C16), so a fixed *)
(* choice suffices here                                                                                  *)
SimplifyStep(dir) == /\ Mode = "trees" /\ pc = "unfolded"
                     /\ MergeablePairs(G, dir) # {}
                     /\ dir = 1 => MergeablePairs(G, 0) = {}
                     /\ LET p == CHOOSE x \in MergeablePairs(G, dir) : TRUE IN G' = MergeEdges(G, p[1], p[2], dir)
                     /\ UNCHANGED <<inp, target, pc>>
SimplifyEnd == /\ Mode = "trees" /\ pc = "unfolded" /\ Simplified(G)
               /\ pc' = "done" /\ UNCHANGED <<inp, G, target>>

Next == \/ (Mode = "trees" /\ pc = "build" /\ \E tr \in TreeSet : AddTree(tr))
        \/ (Mode = "autop" /\ pc = "build" /\ \E e \in AutEdgeSet : AddAutEdge(e))
        \/ UnfoldTrees \/ UnfoldAut \/ SimplifyStep(0) \/ SimplifyStep(1) \/ SimplifyEnd
Spec == Init /\ [][Next]_vars

----------------------------------------------------------------------------
(* C17 *)
MeaningOK == pc \in {"unfolded", "done"} => Den(G) = target
ShapeOK == pc \in {"unfolded", "done"} => (ConsistentG(G) /\ UniqueOids(G) /\ GraphLength(G) = L)
(* an automaton without a path of length L is the only case that cannot be unrolled; then the meaning is empty *)
NoPathOK == pc = "nopath" => AutPoly(AutOf(inp), L) = {}
(* dead states never appear: the nodes of layer i are exactly the states on some full path *)
NoDeadStates == (Mode = "autop" /\ pc = "done") =>
                   (AllConnected(G) /\ \A i \in 0..L : Width(G, i) = Cardinality(AutActive(AutOf(inp), L)[i]))
TreesConnected == (Mode = "trees" /\ pc \in {"unfolded", "done"}) => AllConnected(G)
=============================================================================
