---------------------------- MODULE BondOpsPure ----------------------------
(* Closed forms of what the staged machines of BondOps.tla return, as pure   *)
(* operators of the two charge vectors.  BondOps!ClosedFormOK model checks   *)
(* that the machine agrees with them; the trace specification uses them on   *)
(* traces of arbitrary shapes.                                               *)
EXTENDS Integers, Sequences, FiniteSets

MinI(a, b) == IF a < b THEN a ELSE b
Range(f) == {f[x] : x \in DOMAIN f}
CommonOf(q0, q1) == Range(q0) \cap Range(q1)
CountOf(q, x) == Cardinality({i \in DOMAIN q : q[i] = x})
(* number of intermediate states of charge x: min(rows, columns) of its block *)
PredCount(q0, q1, x) ==
    IF CommonOf(q0, q1) = {} THEN (IF x = q0[1] THEN 1 ELSE 0)
    ELSE IF x \in CommonOf(q0, q1) THEN MinI(CountOf(q0, x), CountOf(q1, x)) ELSE 0
SumOver(S, F(_)) ==
    LET RECURSIVE H(_)
        H(T) == IF T = {} THEN 0 ELSE LET x == CHOOSE y \in T : TRUE IN F(x) + H(T \ {x})
    IN H(S)
PredD(q0, q1) == IF CommonOf(q0, q1) = {} THEN 1 ELSE SumOver(CommonOf(q0, q1), LAMBDA x : PredCount(q0, q1, x))

(* ---- truncation rule of retained_bond_indices, closed form ----                                             *)
(* ws: sequence of squared singular values (non-negative integers), tolerance tn/td.  Values are accumulated   *)
(* from the smallest upwards; a value is kept iff its cumulative weight exceeds tol * total.  Within a group of *)
(* equal values the order is arbitrary, so only the NUMBER of discarded members of each group is determined.    *)
SeqSum(ws) == LET S[k \in 0..Len(ws)] == IF k = 0 THEN 0 ELSE S[k-1] + ws[k] IN S[Len(ws)]
WBelow(ws, g) == SeqSum([k \in DOMAIN ws |-> IF ws[k] < g THEN ws[k] ELSE 0])
NDisc(ws, g, tn, td) ==
    Cardinality({j \in 1..CountOf(ws, g) : td * (WBelow(ws, g) + j * g) <= tn * SeqSum(ws)})
(* kept: the sequence of kept squared values; allowed iff group-wise counts match *)
KeepAllowed(ws, kept, tn, td) ==
    IF SeqSum(ws) = 0 THEN kept = <<>>
    ELSE /\ Range(kept) \subseteq Range(ws)
         /\ \A g \in Range(ws) : CountOf(kept, g) = CountOf(ws, g) - NDisc(ws, g, tn, td)
DiscardedWeight(ws, kept) == SeqSum(ws) - SeqSum(kept)
=============================================================================
