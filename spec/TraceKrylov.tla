----------------------------- MODULE TraceKrylov -----------------------------
(* Trace validation of the Krylov routines (harness/props/c14.py, c15.py):   *)
(* one record per call with n, m, the EXACT Krylov dimension kdim computed   *)
(* by the harness over the rationals, the returned sizes, whether a warning  *)
(* was issued, which iteration routine was entered, and the numerical        *)
(* clauses as ok-flags (mode N).  The size / branch protocol and the regime  *)
(* table are those of Krylov.tla.                                            *)
EXTENDS Integers, Sequences, TLC, Json, IOUtils

Data == JsonDeserialize(IOEnv.TRACE_FILE)
Tr == Data.traces
(* Two levels (harness/parallel.py): the size / warning protocol k = min(m, kdim) and the routing of eigh_krylov / expm_krylov   *)
(* through Lanczos / Arnoldi describe the code (Krylov.tla); C14 only asks for consistent, possibly shortened output.          *)
Strict == IF "strict" \in DOMAIN Data THEN Data.strict ELSE TRUE
VARIABLES tid, l
tvars == <<tid, l>>
Rec == Tr[tid][l]
HasRec == tid <= Len(Tr) /\ l <= Len(Tr[tid])
TraceInit == tid = 1 /\ l = 1
MinI(a, b) == IF a < b THEN a ELSE b
Exhausted == Rec.m >= Rec.kdim
Kexp == MinI(Rec.m, Rec.kdim)                 \* Krylov!SizesOK

ProtocolOK == /\ Strict => (Rec.ambiguous \/ (Rec.k = Kexp /\ (Rec.warned <=> Rec.k < Rec.m)))      \* Krylov!SizesOK, WarnOK
              /\ Rec.k >= 1 /\ Rec.k <= Rec.m
              /\ Rec.sizes_consistent                                                      \* |alpha| = k, |beta| = k-1, V is n x k (H is k x k)
LanczosOK == /\ ProtocolOK
             /\ Rec.ortho_ok /\ Rec.proj_ok /\ Rec.alpha_real /\ Rec.beta_pos
ArnoldiOK == /\ ProtocolOK
             /\ Rec.ortho_ok /\ Rec.proj_ok /\ Rec.hess_ok
EighOK == /\ Strict => Rec.routed = "lanczos"                                                       \* Krylov!RoutingOK
          /\ Rec.ritz_ge_lmin /\ Rec.ritz_le_rayleigh                                      \* Required("ritz_bounds")
          /\ Exhausted => Rec.ritz_eq_reachable_min                                       \* Required("ritz_is_min_reachable")
          /\ (~Exhausted) => (Rec.ritz_orthonormal /\ Rec.ritz_rayleigh)                    \* Required("ritz_orthonormal")
          /\ Rec.shapes_ok
ExpmOK == /\ Strict => Rec.routed = (IF Rec.hermitian THEN "lanczos" ELSE "arnoldi")               \* Krylov!RoutingOK
          /\ (Rec.hermitian /\ Rec.imag_time) => Rec.norm_ok                               \* Required("unitary")
          /\ Exhausted => Rec.exact_ok                                                     \* Required("exact_expm")
          /\ Rec.shapes_ok
CallOK == IF Rec.ev = "lanczos" THEN LanczosOK ELSE IF Rec.ev = "arnoldi" THEN ArnoldiOK
          ELSE IF Rec.ev = "eigh" THEN EighOK ELSE IF Rec.ev = "expm" THEN ExpmOK ELSE FALSE
TCall == /\ HasRec /\ (CallOK = TRUE) /\ l' = l + 1 /\ tid' = tid
TNextTrace == /\ tid <= Len(Tr) /\ l > Len(Tr[tid])
              /\ TLCSet(1, TLCGet(1) \cup {tid})
              /\ tid' = tid + 1 /\ l' = 1
Diagnose ==
    IF Rec.ev = "raise" THEN Rec.exc
    ELSE IF Rec.ev \in {"lanczos", "arnoldi"} THEN
        (IF ~Rec.sizes_consistent THEN "returned sizes are mutually inconsistent or entries are not finite"
         ELSE IF Strict /\ (~(Rec.ambiguous \/ Rec.k = Kexp)) THEN "spec: number of returned Krylov vectors differs from min(m, kdim)"
         ELSE IF Strict /\ (~(Rec.ambiguous \/ (Rec.warned <=> Rec.k < Rec.m))) THEN "spec: warning / early termination mismatch"
         ELSE IF ~Rec.ortho_ok THEN "Krylov vectors not orthonormal"
         ELSE IF ~Rec.proj_ok THEN "projected map differs from the returned tridiagonal / Hessenberg matrix"
         ELSE "coefficient structure (real alpha, positive beta / Hessenberg form)")
    ELSE IF Rec.ev = "eigh" THEN
        (IF Strict /\ (Rec.routed # "lanczos") THEN "spec: eigh_krylov did not go through Lanczos"
         ELSE IF ~Rec.ritz_ge_lmin THEN "lowest Ritz value below the smallest eigenvalue"
         ELSE IF ~Rec.ritz_le_rayleigh THEN "lowest Ritz value above the Rayleigh quotient of the start vector"
         ELSE IF Exhausted /\ ~Rec.ritz_eq_reachable_min THEN "exhausted Krylov space: lowest Ritz value is not the smallest reachable eigenvalue"
         ELSE "Ritz vectors not orthonormal / Ritz values not their Rayleigh quotients / shapes")
    ELSE IF Rec.ev = "expm" THEN
        (IF Strict /\ Rec.routed # (IF Rec.hermitian THEN "lanczos" ELSE "arnoldi") THEN "spec: expm_krylov routed to the wrong iteration"
         ELSE IF Rec.hermitian /\ Rec.imag_time /\ ~Rec.norm_ok THEN "Hermitian exponential with imaginary time does not preserve the norm"
         ELSE IF Exhausted /\ ~Rec.exact_ok THEN "exhausted Krylov space: result differs from expm(dt A) v"
         ELSE "shape of the result")
    ELSE "unexpected event"
TReject == /\ HasRec /\ (CallOK = FALSE)
           /\ PrintT(<<"REJECT", tid, l, Rec.ev, Diagnose>>)
           /\ tid' = tid + 1 /\ l' = 1
TraceNext == TCall \/ TNextTrace \/ TReject
TraceSpec == TraceInit /\ [][TraceNext]_tvars
ASSUME TLCSet(1, {})
TraceDone == PrintT(<<"DONE", TLCGet(1)>>) /\ TLCGet("stats").diameter >= 1
=============================================================================
