--------------------------- MODULE BipartiteOps ---------------------------
(* Matchings, alternating paths and vertex covers of a bipartite graph      *)
(* ((U, V), E): the vocabulary shared by the Hopcroft-Karp model            *)
(* (Bipartite.tla), its trace specification (TraceBipartite.tla) and the    *)
(* operator-chain compiler model (OpChains.tla), which picks minimum vertex *)
(* covers.  Vertices are 0-based like in pytenet/bipartite_graph.py; a      *)
(* matching is a function  mu : U -> V \cup {NIL}.                          *)
EXTENDS Integers, Sequences, FiniteSets

NIL == -1

Range(f) == {f[x] : x \in DOMAIN f}

EmptyMatching(Us) == [u \in Us |-> NIL]

MatchedPairs(mu) == {<<u, mu[u]>> : u \in {w \in DOMAIN mu : mu[w] # NIL}}

MatchSize(mu) == Cardinality({u \in DOMAIN mu : mu[u] # NIL})

FreeU(mu) == {u \in DOMAIN mu : mu[u] = NIL}

FreeV(mu, Vs) == Vs \ Range(mu)

(* mu is a matching of the graph: existing edges only, no vertex twice *)
IsMatching(E, mu, Vs) ==
    /\ \A u \in DOMAIN mu : mu[u] # NIL => (mu[u] \in Vs /\ <<u, mu[u]>> \in E)
    /\ \A u1, u2 \in DOMAIN mu : (u1 # u2 /\ mu[u1] # NIL) => mu[u1] # mu[u2]

(* Vertices reachable from the free U-vertices along alternating paths     *)
(* (non-matching edge U -> V, matching edge V -> U): least fixpoint.       *)
RECURSIVE AltClosure(_, _, _, _)
AltClosure(E, mu, ZU, ZV) ==
    LET nZV == ZV \cup {e[2] : e \in {f \in E : f[1] \in ZU /\ mu[f[1]] # f[2]}}
        nZU == ZU \cup {u \in DOMAIN mu : mu[u] # NIL /\ mu[u] \in nZV}
    IN IF nZV = ZV /\ nZU = ZU THEN <<ZU, ZV>> ELSE AltClosure(E, mu, nZU, nZV)

AltReach(E, mu) == AltClosure(E, mu, FreeU(mu), {})

(* Berge: a matching is maximum iff there is no augmenting path *)
AugPathExists(E, mu, Vs) == AltReach(E, mu)[2] \cap FreeV(mu, Vs) # {}

(* Koenig: (U \ Z) \cup (V \cap Z) *)
KoenigCover(E, mu) ==
    LET Z == AltReach(E, mu) IN [u |-> DOMAIN mu \ Z[1], v |-> Z[2]]

(* written as an empty filter: inside an action TLC would treat  \A e : P \/ Q  as 2^|E| action disjuncts *)
IsCover(E, cu, cv) == {e \in E : e[1] \notin cu /\ e[2] \notin cv} = {}

(* p = <<u0, v0, u1, v1, ..., u_{m-1}, v_{m-1}>> is an augmenting path of mu *)
IsAugPath(E, mu, Vs, p) ==
    /\ Len(p) >= 2 /\ Len(p) % 2 = 0
    /\ \A i \in 1..Len(p) : IF i % 2 = 1 THEN p[i] \in DOMAIN mu ELSE p[i] \in Vs
    /\ \A i, j \in 1..Len(p) : (i # j /\ i % 2 = j % 2) => p[i] # p[j]
    /\ mu[p[1]] = NIL
    /\ p[Len(p)] \notin Range(mu)
    /\ \A i \in 1..(Len(p) \div 2) : <<p[2*i-1], p[2*i]>> \in E /\ mu[p[2*i-1]] # p[2*i]
    /\ \A i \in 1..((Len(p) \div 2) - 1) : mu[p[2*i+1]] = p[2*i]

Flip(mu, p) ==
    [u \in DOMAIN mu |->
        IF \E i \in 1..(Len(p) \div 2) : p[2*i-1] = u
        THEN p[2 * (CHOOSE i \in 1..(Len(p) \div 2) : p[2*i-1] = u)]
        ELSE mu[u]]

(* breadth-first layering used by Hopcroft-Karp: number of U-vertices on a *)
(* shortest augmenting path (0 if there is none)                           *)
RECURSIVE BfsLen(_, _, _, _, _, _)
BfsLen(E, mu, Vs, frontier, seenU, d) ==
    LET nv == {e[2] : e \in {f \in E : f[1] \in frontier /\ mu[f[1]] # f[2]}}
        nu == {u \in DOMAIN mu : mu[u] # NIL /\ mu[u] \in nv} \ seenU
    IN IF frontier = {} THEN 0
       ELSE IF nv \cap FreeV(mu, Vs) # {} THEN d
       ELSE BfsLen(E, mu, Vs, nu, seenU \cup nu, d + 1)

ShortestAugLen(E, mu, Vs) == BfsLen(E, mu, Vs, FreeU(mu), FreeU(mu), 1)

(* all augmenting paths with exactly k U-vertices *)
RECURSIVE ExtendPaths(_, _, _, _, _)
ExtendPaths(E, mu, Vs, k, partial) ==
    \* partial: set of sequences <<u0, v0, ..., u_j>> (odd length) that are alternating so far
    LET step(p) == {Append(p, e[2]) : e \in {f \in E : f[1] = p[Len(p)] /\ mu[f[1]] # f[2]
                                                    /\ \A i \in 1..Len(p) : p[i] # f[2] \/ i % 2 = 1}}
        withV == UNION {step(p) : p \in partial}
    IN IF k <= 0 \/ partial = {} THEN {}
       ELSE IF k = 1 THEN {p \in withV : p[Len(p)] \notin Range(mu)}
       ELSE LET cont == {Append(p, CHOOSE u \in DOMAIN mu : mu[u] = p[Len(p)]) :
                            p \in {q \in withV : q[Len(q)] \in Range(mu)}}
                ok == {p \in cont : \A i \in 1..(Len(p)-1) : i % 2 = 0 \/ p[i] # p[Len(p)]}
            IN ExtendPaths(E, mu, Vs, k - 1, ok)

AugPathsOfLen(E, mu, Vs, k) == ExtendPaths(E, mu, Vs, k, {<<u>> : u \in FreeU(mu)})

(* brute force, for cross-checking the certificates on tiny graphs *)
AllMatchings(E, Us, Vs) ==
    {mu \in [Us -> Vs \cup {NIL}] : IsMatching(E, mu, Vs)}

MaxMatchingSize(E, Us, Vs) ==
    CHOOSE n \in 0..Cardinality(Us) :
        /\ \E mu \in AllMatchings(E, Us, Vs) : MatchSize(mu) = n
        /\ \A mu \in AllMatchings(E, Us, Vs) : MatchSize(mu) <= n

MinCoverSize(E, Us, Vs) ==
    CHOOSE n \in 0..(Cardinality(Us) + Cardinality(Vs)) :
        /\ \E cu \in SUBSET Us, cv \in SUBSET Vs : IsCover(E, cu, cv) /\ Cardinality(cu) + Cardinality(cv) = n
        /\ \A cu \in SUBSET Us, cv \in SUBSET Vs : IsCover(E, cu, cv) => Cardinality(cu) + Cardinality(cv) >= n

(* all minimum vertex covers (used by the compiler model, which may pick any) *)
MinCovers(E, Us, Vs) ==
    LET n == MinCoverSize(E, Us, Vs)
    IN {c \in [u : SUBSET Us, v : SUBSET Vs] : IsCover(E, c.u, c.v) /\ Cardinality(c.u) + Cardinality(c.v) = n}
=============================================================================
