-------------------------------- MODULE Sector --------------------------------
(* Histories of public operations on a pool of MPS / MPO objects, projected   *)
(* to what C02 talks about: for each object the container kind of its         *)
(* quantum-number lists ("ndarray" | "list"), whether every list has the      *)
(* length of the dimension it labels, its boundary (total) charges, and       *)
(* whether it is the zero state.  The charge algebra of the individual         *)
(* factorizations is model checked in BondOps.tla / Canon.tla; this module     *)
(* adds the HISTORY dimension: any interleaving of creating and updating      *)
(* operations keeps the invariants, and no operation applied to a valid       *)
(* object raises.                                                             *)
(* LegacyFromVector = TRUE is the pinned code (finding F3): from_vector        *)
(* returned Python lists, and every later in-place operation raised.           *)
EXTENDS Integers, Sequences, FiniteSets, TLC

CONSTANTS NOBJ, MaxDepth, LegacyFromVector
Obj == 1..NOBJ
VARIABLES live, st, depth, raised
vars == <<live, st, depth, raised>>

Fresh0(cls, kind) == [cls |-> cls, kind |-> kind, lenok |-> TRUE, q0 |-> 0, qL |-> 0, zero |-> FALSE]
Init == live = {} /\ st = [o \in Obj |-> Fresh0("none", "ndarray")] /\ depth = 0 /\ raised = FALSE

Create(o, cls, q0, qL) == /\ o \in Obj \ live /\ depth < MaxDepth
                          /\ live' = live \cup {o}
                          /\ st' = [st EXCEPT ![o] = [Fresh0(cls, "ndarray") EXCEPT !.q0 = q0, !.qL = qL]]
                          /\ depth' = depth + 1 /\ UNCHANGED raised
FromVector(o) == /\ o \in Obj \ live /\ depth < MaxDepth
                 /\ live' = live \cup {o}
                 /\ st' = [st EXCEPT ![o] = Fresh0("mps", IF LegacyFromVector THEN "list" ELSE "ndarray")]
                 /\ depth' = depth + 1 /\ UNCHANGED raised
(* orthonormalize / compress / TDVP / DMRG: need array-typed charges (unary minus), keep the total charges of non-zero states; *)
(* the zero state may come back as a unit-norm state (the QR of a zero block returns an isometry and R = 0), with any charges *)
InPlace(o, becomesZero) ==
    /\ o \in live /\ st[o].cls = "mps" /\ depth < MaxDepth /\ ~raised
    /\ IF st[o].kind # "ndarray" THEN raised' = TRUE /\ UNCHANGED st
       ELSE /\ raised' = raised
            /\ \E q \in {0, 1} :
                 st' = [st EXCEPT ![o].zero = becomesZero,
                                  ![o].qL = IF st[o].zero THEN q ELSE @]
    /\ depth' = depth + 1 /\ UNCHANGED live
(* a + b, a - b: same class, same boundary charges *)
Add(a, b, r) == /\ a \in live /\ b \in live /\ r \in Obj \ live /\ depth < MaxDepth /\ ~raised
                /\ st[a].cls = st[b].cls /\ st[a].q0 = st[b].q0 /\ st[a].qL = st[b].qL
                /\ IF st[a].kind # "ndarray" \/ st[b].kind # "ndarray" THEN raised' = TRUE /\ UNCHANGED <<st, live>>
                   ELSE /\ raised' = raised /\ live' = live \cup {r}
                        /\ st' = [st EXCEPT ![r] = [st[a] EXCEPT !.zero = FALSE]]
                /\ depth' = depth + 1
(* op |psi>, op @ op: boundary charges add *)
Apply(a, b, r) == /\ a \in live /\ b \in live /\ r \in Obj \ live /\ depth < MaxDepth /\ ~raised
                  /\ st[a].cls = "mpo"
                  /\ live' = live \cup {r}
                  /\ st' = [st EXCEPT ![r] = [cls |-> st[b].cls, kind |-> "ndarray", lenok |-> TRUE,
                                              q0 |-> st[a].q0 + st[b].q0, qL |-> st[a].qL + st[b].qL, zero |-> st[b].zero]]
                  /\ depth' = depth + 1 /\ UNCHANGED raised
Next == \/ \E o \in Obj, cls \in {"mps", "mpo"}, q0 \in {0, 1}, qL \in {0, 1} : Create(o, cls, q0, qL)
        \/ \E o \in Obj : FromVector(o)
        \/ \E o \in Obj, z \in BOOLEAN : InPlace(o, z)
        \/ \E a, b, r \in Obj : Add(a, b, r) \/ Apply(a, b, r)
Spec == Init /\ [][Next]_vars

LenOK == \A o \in live : st[o].lenok
KindOK == \A o \in live : st[o].kind = "ndarray"
NeverRaised == ~raised
=============================================================================
