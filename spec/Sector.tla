-------------------------------- MODULE Sector --------------------------------
(* Histories of public operations on a pool of MPS / MPO objects, projected   *)
(* to what C02 talks about: for each object the container kind of its         *)
(* quantum-number lists ("ndarray" | "list"), whether every list has the      *)
(* length of the dimension it labels, its boundary (total) charges, and       *)
(* whether it is the zero state.  The charge algebra of the individual         *)
(* factorizations is model checked in BondOps.tla / Canon.tla; this module     *)
(* adds the HISTORY dimension: any interleaving of creating and updating      *)
(* operations keeps the invariants, and no operation applied to a valid       *)
(* object raises.                                                             *)
(* LegacyFromVector = TRUE is the pinned code (finding F3): from_vector        *)
(* returned Python lists, and every later in-place operation raised.           *)
EXTENDS Integers, Sequences, FiniteSets, TLC

CONSTANTS NOBJ, MaxDepth, LegacyFromVector,
          ZeroCreate        \* subset of BOOLEAN: may a constructor produce the zero state (fill = 0)?
Obj == 1..NOBJ
VARIABLES live, st, depth, raised,
          last          \* the call that produced this state (parameters for replaying behaviours on the real objects); not part of the VIEW
vars == <<live, st, depth, raised, last>>
view == <<live, st, depth, raised>>

Fresh0(cls, kind) == [cls |-> cls, kind |-> kind, lenok |-> TRUE, q0 |-> 0, qL |-> 0, zero |-> FALSE]
Call(op, o, a, b, sub) == [op |-> op, o |-> o, a |-> a, b |-> b, sub |-> sub]
Init == live = {} /\ st = [o \in Obj |-> Fresh0("none", "ndarray")] /\ depth = 0 /\ raised = FALSE
        /\ last = Call("init", 0, 0, 0, FALSE)

(* MPS(qd, qD, fill) / MPO(qd, qD, fill) / a Hamiltonian constructor; fill = 0 gives the zero state *)
Create(o, cls, q0, qL, z) == /\ o \in Obj \ live /\ depth < MaxDepth
                             /\ live' = live \cup {o}
                             /\ st' = [st EXCEPT ![o] = [Fresh0(cls, "ndarray") EXCEPT !.q0 = q0, !.qL = qL, !.zero = z]]
                             /\ depth' = depth + 1 /\ UNCHANGED raised
                             /\ last' = Call("create", o, 0, 0, FALSE)
FromVector(o) == /\ o \in Obj \ live /\ depth < MaxDepth
                 /\ live' = live \cup {o}
                 /\ st' = [st EXCEPT ![o] = Fresh0("mps", IF LegacyFromVector THEN "list" ELSE "ndarray")]
                 /\ depth' = depth + 1 /\ UNCHANGED raised
                 /\ last' = Call("from_vector", o, 0, 0, FALSE)
(* orthonormalize / compress / TDVP / DMRG: need array-typed charges (unary minus), keep the total charges of non-zero states; *)
(* the zero state may come back as a unit-norm state (the QR of a zero block returns an isometry and R = 0), with any charges *)
InPlace(o, z, q) ==
    /\ o \in live /\ st[o].cls \in {"mps", "mpo"} /\ depth < MaxDepth /\ ~raised
    /\ IF st[o].kind # "ndarray" THEN raised' = TRUE /\ UNCHANGED st
       ELSE /\ raised' = raised
            /\ st' = [st EXCEPT ![o].zero = IF st[o].zero THEN z ELSE FALSE,
                                ![o].qL = IF st[o].zero THEN q ELSE @]
    /\ depth' = depth + 1 /\ UNCHANGED live
    /\ last' = Call("inplace", o, 0, 0, FALSE)
(* a + b, a - b: same class, same boundary charges *)
Add(a, b, r, sub) ==
                /\ a \in live /\ b \in live /\ r \in Obj \ live /\ depth < MaxDepth /\ ~raised
                /\ st[a].cls = st[b].cls /\ st[a].q0 = st[b].q0 /\ st[a].qL = st[b].qL
                /\ IF st[a].kind # "ndarray" \/ st[b].kind # "ndarray" THEN raised' = TRUE /\ UNCHANGED <<st, live>>
                   ELSE /\ raised' = raised /\ live' = live \cup {r}
                        /\ st' = [st EXCEPT ![r] = [st[a] EXCEPT !.zero = (st[a].zero /\ st[b].zero) \/ (sub /\ a = b)]]
                /\ depth' = depth + 1
                /\ last' = Call("add", r, a, b, sub)
(* op |psi>, op @ op: boundary charges add *)
Apply(a, b, r) == /\ a \in live /\ b \in live /\ r \in Obj \ live /\ depth < MaxDepth /\ ~raised
                  /\ st[a].cls = "mpo"
                  /\ live' = live \cup {r}
                  /\ st' = [st EXCEPT ![r] = [cls |-> st[b].cls, kind |-> "ndarray", lenok |-> TRUE,
                                              q0 |-> st[a].q0 + st[b].q0, qL |-> st[a].qL + st[b].qL,
                                              zero |-> st[a].zero \/ st[b].zero]]
                  /\ depth' = depth + 1 /\ UNCHANGED raised
                  /\ last' = Call("apply", r, a, b, FALSE)
Next == \/ \E o \in Obj, cls \in {"mps", "mpo"}, q0 \in {0, 1}, qL \in {0, 1}, z \in ZeroCreate : Create(o, cls, q0, qL, z)
        \/ \E o \in Obj : FromVector(o)
        \/ \E o \in Obj, z \in BOOLEAN, q \in {0, 1} : InPlace(o, z, q)
        \/ \E a, b, r \in Obj, sub \in BOOLEAN : Add(a, b, r, sub)
        \/ \E a, b, r \in Obj : Apply(a, b, r)
Spec == Init /\ [][Next]_vars

LenOK == \A o \in live : st[o].lenok
KindOK == \A o \in live : st[o].kind = "ndarray"
NeverRaised == ~raised
(* the total charges of a non-zero state are never changed by an in-place algorithm *)
BoundaryKept == [][\A o \in live : (o \in live' /\ ~st[o].zero) => (st'[o].q0 = st[o].q0 /\ st'[o].qL = st[o].qL)]_vars
=============================================================================
