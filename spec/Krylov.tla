------------------------------- MODULE Krylov -------------------------------
(* Size / branch protocol of the Krylov routines of pytenet/krylov.py:       *)
(* lanczos_iteration, arnoldi_iteration, eigh_krylov, expm_krylov.           *)
(*   n     dimension,  m  requested iterations,                              *)
(*   kdim  dimension of the Krylov space of (A, v)  (exact integer)          *)
(* Actions: Start (normalise), Iter (one pass of the loop, j = 0..m-2),      *)
(* Breakdown (the off-diagonal vanishes: warning, shortened return), Final   *)
(* (last diagonal entry), then Ritz / Expm on the returned factorization.    *)
(* In exact arithmetic the off-diagonal of step j vanishes iff kdim = j + 1. *)
EXTENDS Integers, TLC

CONSTANTS NMAX, MMAX

VARIABLES n, m, kdim, routine, caller, hermitian, j, k, warned, pc
vars == <<n, m, kdim, routine, caller, hermitian, j, k, warned, pc>>

Init == /\ n \in 1..NMAX /\ m \in 1..MMAX /\ kdim \in 1..n
        /\ caller \in {"lanczos", "arnoldi", "eigh", "expm"}
        /\ hermitian \in BOOLEAN
        /\ (caller \in {"lanczos", "eigh"} => hermitian)
        /\ (caller = "arnoldi" => ~hermitian)
        \* routing: eigh_krylov and the hermitian branch of expm_krylov go through Lanczos, the general branch through Arnoldi
        /\ routine = (IF caller = "lanczos" \/ caller = "eigh" \/ (caller = "expm" /\ hermitian) THEN "lanczos" ELSE "arnoldi")
        /\ j = 0 /\ k = 0 /\ warned = FALSE /\ pc = "loop"

Iter == /\ pc = "loop" /\ j < m - 1 /\ kdim # j + 1
        /\ j' = j + 1
        /\ UNCHANGED <<n, m, kdim, routine, caller, hermitian, k, warned, pc>>
Breakdown == /\ pc = "loop" /\ j < m - 1 /\ kdim = j + 1
             /\ k' = j + 1 /\ warned' = TRUE /\ pc' = "returned"
             /\ UNCHANGED <<n, m, kdim, routine, caller, hermitian, j>>
Final == /\ pc = "loop" /\ j = m - 1
         /\ k' = m /\ pc' = "returned"
         /\ UNCHANGED <<n, m, kdim, routine, caller, hermitian, j, warned>>
Post == /\ pc = "returned" /\ caller \in {"eigh", "expm"}
        /\ pc' = "done"
        /\ UNCHANGED <<n, m, kdim, routine, caller, hermitian, j, k, warned>>
Next == Iter \/ Breakdown \/ Final \/ Post
Spec == Init /\ [][Next]_vars /\ WF_vars(Next)

----------------------------------------------------------------------------
MinI(a, b) == IF a < b THEN a ELSE b
Returned == pc \in {"returned", "done"}
Exhausted == m >= kdim
(* C14: mutually consistent output sizes, shortened exactly when the Krylov space is exhausted early, never an error *)
SizesOK == Returned => (k = MinI(m, kdim) /\ k >= 1 /\ k <= m /\ (m <= n => k <= n))
WarnOK == Returned => (warned <=> k < m)
RoutingOK == (caller = "expm" /\ hermitian => routine = "lanczos") /\ (caller = "expm" /\ ~hermitian => routine = "arnoldi")
             /\ (caller = "eigh" => routine = "lanczos")
(* C15: which clauses are required in which regime (the case analysis of the property as a state predicate) *)
Required(clause) ==
    IF clause = "exact_expm" THEN caller = "expm" /\ Exhausted
    ELSE IF clause = "ritz_is_min_reachable" THEN caller = "eigh" /\ Exhausted
    ELSE IF clause = "ritz_bounds" THEN caller = "eigh"
    ELSE IF clause = "ritz_orthonormal" THEN caller = "eigh" /\ ~Exhausted
    ELSE IF clause = "unitary" THEN caller = "expm" /\ hermitian
    ELSE FALSE
(* once the space is exhausted the returned factorization spans the whole Krylov space: k = kdim *)
ExhaustedSpans == (Returned /\ Exhausted) => k = kdim
Terminates == <>(pc \in {"returned", "done"})
=============================================================================
