----------------------------- MODULE UnfoldOps -----------------------------
(* Operator trees (pytenet/optree.py), operator state automata              *)
(* (pytenet/autop.py) and their unfolding into operator graphs              *)
(* (OpGraph.from_optrees, OpGraph.from_automaton): symbolic meanings and    *)
(* functional transcriptions of the two constructions.                      *)
EXTENDS OpChainsOps, TLC

----------------------------------------------------------------------------
(* TREES.  A tree node is [q, ch] with ch a sequence of edges [oid, c, node]. *)
IsLeaf(t) == t.ch = <<>>
RECURSIVE Height(_)
Height(t) == IF IsLeaf(t) THEN 0
             ELSE 1 + Max({Height(t.ch[k].node) : k \in DOMAIN t.ch})

(* meaning of the subtree below t when `room` sites are left: every root-to-leaf path, padded with   *)
(* identities after the leaf; {} marks "does not fit" separately (Fits)                              *)
RECURSIVE TreePoly(_, _, _)
TreePoly(t, room, idOid) ==
    IF IsLeaf(t) THEN PolyTerm(Repl(idOid, room), 1)
    ELSE PolySumOver(DOMAIN t.ch,
            LAMBDA k : PolyPrefix(t.ch[k].oid, t.ch[k].c, TreePoly(t.ch[k].node, room - 1, idOid)))

RECURSIVE TreeFits(_, _)
TreeFits(t, room) == IF IsLeaf(t) THEN room >= 0
                     ELSE room >= 1 /\ \A k \in DOMAIN t.ch : TreeFits(t.ch[k].node, room - 1)

(* sum of the trees, each padded with identities before its start site *)
TreesPoly(trees, L, idOid) ==
    PolySumOver(DOMAIN trees,
        LAMBDA k : PolyMul(PolyTerm(Repl(idOid, trees[k].istart), 1), TreePoly(trees[k].root, L - trees[k].istart, idOid)))

(* guards of from_optrees: a tree must fit, its root charge must match the node it is attached to (0 at the   *)
(* start node), and a leaf reached with no site left must sit on the terminal node (charge 0)                 *)
RECURSIVE LeafChargesOK(_, _)
LeafChargesOK(t, room) ==
    IF IsLeaf(t) THEN room > 0 \/ t.q = 0
    ELSE \A k \in DOMAIN t.ch : LeafChargesOK(t.ch[k].node, room - 1)
TreeOK(tr, L) == /\ tr.istart >= 0 /\ tr.istart <= L
                 /\ TreeFits(tr.root, L - tr.istart)
                 /\ (tr.istart = 0 => tr.root.q = 0)
                 /\ LeafChargesOK(tr.root, L - tr.istart)
                 /\ tr.istart < L

(* ---- functional transcription of _insert_opchain / _insert_subtree / from_optrees (before simplify) ---- *)
NextNid(G) == Max(DOMAIN G.nodes) + 1
NextEid(G) == (IF DOMAIN G.edges = {} THEN 0 ELSE Max(DOMAIN G.edges)) + 1

(* identity string of n >= 1 edges from node a to the existing node b, interior nodes fresh with charge 0 *)
RECURSIVE IdString(_, _, _, _, _)
IdString(G, a, b, n, idOid) ==
    IF n = 1 THEN WithEdge(G, NextEid(G), a, b, {<<idOid, 1>>})
    ELSE LET m  == NextNid(G)
             e  == NextEid(G)
             G1 == WithEdge(WithNode(G, m, 0), e, a, m, {<<idOid, 1>>})
         IN IdString(G1, m, b, n - 1, idOid)

RECURSIVE InsSubtree(_, _, _, _, _)
RECURSIVE InsChildren(_, _, _, _, _, _)
InsSubtree(G, t, nid, dist, idOid) ==
    IF IsLeaf(t)
    THEN IF dist > 0 THEN IdString(G, nid, G.term[2], dist, idOid) ELSE G
    ELSE InsChildren(G, t, 1, nid, dist, idOid)
InsChildren(G, t, k, nid, dist, idOid) ==
    IF k > Len(t.ch) THEN G
    ELSE LET ed == t.ch[k]
             e  == NextEid(G)
             m  == IF dist > 1 THEN NextNid(G) ELSE G.term[2]
             G1 == IF dist > 1 THEN WithNode(G, m, ed.node.q) ELSE G
             G2 == WithEdge(G1, e, nid, m, {<<ed.oid, ed.c>>})
             G3 == InsSubtree(G2, ed.node, m, dist - 1, idOid)
         IN InsChildren(G3, t, k + 1, nid, dist, idOid)

TreeStartGraph == [nodes |-> (0 :> [q |-> 0, ein |-> {}, eout |-> {}]) @@ (1 :> [q |-> 0, ein |-> {}, eout |-> {}]),
                   edges |-> <<>>, term |-> <<0, 1>>]

InsertTree(G, tr, L, idOid) ==
    IF tr.istart > 0
    THEN LET r  == NextNid(G)
             G1 == IdString(WithNode(G, r, tr.root.q), 0, r, tr.istart, idOid)
         IN InsSubtree(G1, tr.root, r, L - tr.istart, idOid)
    ELSE InsSubtree(G, tr.root, 0, L, idOid)

RECURSIVE InsertTrees(_, _, _, _, _)
InsertTrees(G, trees, k, L, idOid) ==
    IF k > Len(trees) THEN G ELSE InsertTrees(InsertTree(G, trees[k], L, idOid), trees, k + 1, L, idOid)

TreesGraph(trees, L, idOid) == InsertTrees(TreeStartGraph, trees, 1, L, idOid)

----------------------------------------------------------------------------
(* AUTOMATA.  [nodes : nid -> [q], edges : eid -> [src, dst, act, ops], term] with act a sequence of L       *)
(* booleans and ops a sequence of L sets of <<oid, c>> (the callables tabulated per site, 1-based = site i-1) *)
AutFwd(A, L) ==
    LET F[i \in 0..L] == IF i = 0 THEN {A.term[1]}
                         ELSE {A.edges[e].dst : e \in {x \in DOMAIN A.edges : A.edges[x].src \in F[i-1] /\ A.edges[x].act[i]}}
    IN F
AutBwd(A, L) ==
    LET B[j \in 0..L] == \* B[j] is the set at layer L - j
                         IF j = 0 THEN {A.term[2]}
                         ELSE {A.edges[e].src : e \in {x \in DOMAIN A.edges : A.edges[x].dst \in B[j-1] /\ A.edges[x].act[L - j + 1]}}
    IN [i \in 0..L |-> B[L - i]]
AutActive(A, L) == [i \in 0..L |-> AutFwd(A, L)[i] \cap AutBwd(A, L)[i]]
AutHasPath(A, L) == A.term[2] \in AutFwd(A, L)[L]

(* AutOp.is_consistent(): mutual references between nodes and edges, terminals exist.  ein / eout: sets of edge ids per node *)
AutConsistent(nodes, edges, term) ==
    /\ \A n \in DOMAIN nodes : /\ \A e1 \in nodes[n].ein : e1 \in DOMAIN edges /\ edges[e1].dst = n
                                 /\ \A e2 \in nodes[n].eout : e2 \in DOMAIN edges /\ edges[e2].src = n
    /\ \A e \in DOMAIN edges : /\ edges[e].src \in DOMAIN nodes /\ edges[e].dst \in DOMAIN nodes
                                 /\ e \in nodes[edges[e].src].eout /\ e \in nodes[edges[e].dst].ein
    /\ term[1] \in DOMAIN nodes /\ term[2] \in DOMAIN nodes

(* sum over all automaton paths of length L between the terminals (independent of the pruning) *)
RECURSIVE AutPolyFrom(_, _, _, _)
AutPolyFrom(A, n, i, L) ==      \* i sites consumed so far
    IF i = L THEN (IF n = A.term[2] THEN PolyOne ELSE {})
    ELSE PolySumOver({e \in DOMAIN A.edges : A.edges[e].src = n /\ A.edges[e].act[i + 1]},
            LAMBDA e : OpsPoly(A.edges[e].ops[i + 1], AutPolyFrom(A, A.edges[e].dst, i + 1, L)))
AutPoly(A, L) == AutPolyFrom(A, A.term[1], 0, L)

(* functional transcription of from_automaton: graph nodes are pairs <<layer, automaton node>> numbered        *)
(* layer by layer in ascending automaton-id order                                                              *)
AutGraph(A, L) ==
    LET act == AutActive(A, L)
        pairs == {<<i, n>> : i \in 0..L, n \in DOMAIN A.nodes}
        live == {p \in pairs : p[2] \in act[p[1]]}
        num(p) == Cardinality({x \in live : x[1] < p[1] \/ (x[1] = p[1] /\ x[2] < p[2])})
        gedges == {<<i, e>> : i \in 0..(L-1), e \in DOMAIN A.edges}
        liveE == {x \in gedges : A.edges[x[2]].act[x[1] + 1] /\ A.edges[x[2]].src \in act[x[1]] /\ A.edges[x[2]].dst \in act[x[1] + 1]}
        enum(x) == Cardinality({y \in liveE : y[1] < x[1] \/ (y[1] = x[1] /\ y[2] < x[2])})
    IN [nodes |-> [m \in {num(p) : p \in live} |->
                     LET p == CHOOSE x \in live : num(x) = m
                     IN [q |-> A.nodes[p[2]].q,
                         ein |-> {enum(x) : x \in {y \in liveE : y[1] + 1 = p[1] /\ A.edges[y[2]].dst = p[2]}},
                         eout |-> {enum(x) : x \in {y \in liveE : y[1] = p[1] /\ A.edges[y[2]].src = p[2]}}]],
        edges |-> [d \in {enum(x) : x \in liveE} |->
                     LET x == CHOOSE y \in liveE : enum(y) = d
                     IN [src |-> num(<<x[1], A.edges[x[2]].src>>), dst |-> num(<<x[1] + 1, A.edges[x[2]].dst>>),
                         ops |-> A.edges[x[2]].ops[x[1] + 1]]],
        term |-> <<num(<<0, A.term[1]>>), num(<<L, A.term[2]>>)>>]

----------------------------------------------------------------------------
(* DENSE MEANING under an operator map: matrix of a polynomial whose words all have length n;             *)
(* opm is a function oid -> d x d integer matrix (sequence of rows), indices row-major like numpy.kron    *)
Pow(b, e) == IF e = 0 THEN 1 ELSE IF e = 1 THEN b ELSE IF e = 2 THEN b * b ELSE IF e = 3 THEN b * b * b
             ELSE IF e = 4 THEN b * b * b * b ELSE b * b * b * b * b
Digit(x, k, n, d) == (x \div Pow(d, n - k)) % d          \* k-th digit (1-based, most significant first) of x < d^n
WordEntry(w, opm, d, r, c) ==
    LET n == Len(w)
        F[k \in 0..n] == IF k = 0 THEN 1 ELSE F[k-1] * opm[w[k]][Digit(r, k, n, d) + 1][Digit(c, k, n, d) + 1]
    IN F[n]
PolyEntry(p, opm, d, r, c) == FoldSet(LAMBDA t, acc : acc + t[2] * WordEntry(t[1], opm, d, r, c), 0, p)
=============================================================================
