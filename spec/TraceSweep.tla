----------------------------- MODULE TraceSweep -----------------------------
(* Trace validation of integrate_local_singlesite / _twosite and              *)
(* calculate_ground_state_local_singlesite / _twosite                         *)
(* (harness/props/c08.py, c09.py, c10.py) against the programs of SweepOps.   *)
(* One trace = one or two consecutive calls on the same state:                *)
(*   begin  alg L nsteps sign      (sign = -1: the call runs with -dt)        *)
(*   local  kind i f  fresh_l fresh_r canon_l canon_r  [en]                   *)
(*          one record per local problem (wrappers on _local_hamiltonian_step,*)
(*          _local_bond_step, _minimize_local_energy); f is the time argument *)
(*          in units of dt/2, recognised bit-exactly by the harness           *)
(*   end    result clauses (exact bookkeeping + mode-N flags)                 *)
(* The k-th local record must be the k-th local problem of the program        *)
(* (Sweep!LocalWord), posed in mixed canonical form with fresh environment    *)
(* blocks (Sweep!WellPosed, decided by the harness by recomputing the blocks  *)
(* from the tensors currently in psi).  `stack` implements Reduce: adjacent   *)
(* local flows with opposite time cancel; a dt / -dt pair of calls must       *)
(* reduce to the empty word (C09, symmetry of the integrator).                *)
EXTENDS SweepOps, TLC, Json, IOUtils

Data == JsonDeserialize(IOEnv.TRACE_FILE)
Tr == Data.traces
(* Two levels (harness/parallel.py): Strict demands the program of Sweep.tla (every local problem in order, with its time     *)
(* fraction, well posed; reported energies are the Ritz values; a dt / -dt pair reduces to the empty word).  The properties    *)
(* C08 / C09 / C10 are the result clauses of TEnd; with Strict = FALSE the local events are removed by the harness and the     *)
(* end record is marked hooks_missing.  Diagnostics of strict-only clauses start with "spec: ".                               *)
Strict == IF "strict" \in DOMAIN Data THEN Data.strict ELSE TRUE
(* The trace spec is shared by C08, C09 and C10: a result clause that belongs to another property (or to C02 / C19) is strict-only *)
(* for the property being checked, so that a check never raises an alarm about a property it does not decide.                    *)
Pid == IF "pid" \in DOMAIN Data THEN Data.pid ELSE "all"
Own(S) == Strict \/ Pid \in S \/ Pid = "all"
Tag(S) == IF Pid \in S \/ Pid = "all" THEN "" ELSE "spec: (clause of another property) "
VARIABLES tid, l, word, p, sign, stack, ens, pc
tvars == <<tid, l, word, p, sign, stack, ens, pc>>
Rec == Tr[tid][l]
HasRec == tid <= Len(Tr) /\ l <= Len(Tr[tid])
Advance == l' = l + 1 /\ tid' = tid
Blank == word' = <<>> /\ p' = 1 /\ sign' = 1 /\ stack' = <<>> /\ ens' = <<>> /\ pc' = "idle"
TraceInit == tid = 1 /\ l = 1 /\ word = <<>> /\ p = 1 /\ sign = 1 /\ stack = <<>> /\ ens = <<>> /\ pc = "idle"

TBegin == /\ HasRec /\ Rec.ev = "begin" /\ pc = "idle"
          /\ word' = LocalWord(ProgOf(Rec.alg, Rec.L, Rec.nsteps, "none"))
          /\ p' = 1 /\ sign' = Rec.sign /\ ens' = <<>> /\ pc' = "run"
          /\ UNCHANGED stack /\ Advance

Push(ev) == IF stack # <<>> /\ stack[Len(stack)] = <<ev[1], ev[2], -ev[3]>>
            THEN SubSeq(stack, 1, Len(stack) - 1) ELSE Append(stack, ev)

TLocal == /\ HasRec /\ Rec.ev = "local" /\ pc = "run"
          /\ p <= Len(word)
          /\ Rec.kind = word[p].op /\ Rec.i = word[p].i /\ Rec.f = sign * word[p].f       \* order, site, time fraction and sign
          /\ Rec.fresh_l /\ Rec.fresh_r                                                  \* environment blocks built from the current tensors
          /\ Rec.canon_l /\ Rec.canon_r                                                  \* mixed canonical form around the local problem
          /\ Rec.local_ok                                                                \* DMRG: lowest Ritz value <= Rayleigh quotient of the start tensor
          /\ p' = p + 1
          /\ stack' = IF Rec.f = 0 THEN stack ELSE Push(<<Rec.kind, Rec.i, Rec.f>>)
          /\ ens' = Append(ens, Rec.en)
          /\ UNCHANGED <<word, sign, pc>> /\ Advance

(* energies reported by DMRG: one per sweep, bit-identical to the Ritz value of the last local problem of that sweep *)
EnergiesOK ==
    Rec.is_dmrg =>
        /\ Len(Rec.energies) = Rec.nsteps
        /\ (Strict /\ Rec.nsteps > 0 /\ Len(word) > 0 /\ ~Rec.hooks_missing) =>
              LET per == Len(word) \div Rec.nsteps
              IN \A n \in 1..Rec.nsteps : Rec.energies[n] = ens[n * per]

TEnd == /\ HasRec /\ Rec.ev = "end" /\ pc = "run"
        /\ (p = Len(word) + 1) \/ (Rec.hooks_missing /\ p = 1)          \* every local problem of the program was observed
        /\ EnergiesOK
        /\ Rec.ret_ok /\ Rec.extra_ok
        /\ Own({"C08", "C10"}) => (Rec.h_unchanged /\ Rec.norm_ok /\ Rec.energy_ok)
        /\ Own({"C08"}) => (Rec.boundary_ok /\ Rec.dims_ok)
        /\ Strict => (Rec.sparse_ok /\ Rec.types_ok)                       \* C02
        /\ (Strict /\ Rec.expect_reduced) => stack = <<>>                             \* a dt / -dt pair cancels completely
        /\ pc' = "idle" /\ UNCHANGED <<word, p, sign, stack, ens>> /\ Advance

TStep == TBegin \/ TLocal \/ TEnd
TNextTrace == /\ tid <= Len(Tr) /\ l > Len(Tr[tid]) /\ pc = "idle"
              /\ TLCSet(1, TLCGet(1) \cup {tid})
              /\ tid' = tid + 1 /\ l' = 1 /\ Blank
Diagnose ==
    IF Rec.ev = "raise" THEN Rec.exc
    ELSE IF Rec.ev = "local" THEN
        (IF Strict /\ (pc # "run" \/ p > Len(word)) THEN "spec: more local problems than the program has"
         ELSE IF Strict /\ (Rec.kind # word[p].op \/ Rec.i # word[p].i) THEN "spec: sweep order: unexpected local problem (kind / site)"
         ELSE IF Strict /\ (Rec.f # sign * word[p].f) THEN "spec: wrong time fraction or sign of a local step"
         ELSE IF Strict /\ (~(Rec.fresh_l /\ Rec.fresh_r)) THEN "spec: stale environment block handed to a local problem"
         ELSE IF Strict /\ (~(Rec.canon_l /\ Rec.canon_r)) THEN "spec: local problem not in mixed canonical form"
         ELSE IF Strict THEN "spec: local Ritz value above the Rayleigh quotient of the start tensor" ELSE "a property clause of this event failed (no specific diagnostic)")
    ELSE IF Rec.ev = "end" THEN
        (IF Strict /\ (~((p = Len(word) + 1) \/ (Rec.hooks_missing /\ p = 1))) THEN "spec: fewer local problems than the program has"
         ELSE IF Rec.is_dmrg /\ Len(Rec.energies) # Rec.nsteps THEN "number of reported energies differs from the number of sweeps"
         ELSE IF Strict /\ (~EnergiesOK) THEN "spec: reported energy is not the Ritz value of the last local problem of its sweep"
         ELSE IF ~Rec.ret_ok THEN "returned value is not the norm of the input state"
         ELSE IF ~Rec.extra_ok THEN Rec.extra_what
         ELSE IF Own({"C08", "C10"}) /\ ~Rec.h_unchanged THEN Tag({"C08", "C10"}) \o "Hamiltonian modified"
         ELSE IF Own({"C08", "C10"}) /\ ~Rec.norm_ok THEN Tag({"C08", "C10"}) \o "norm of the state not conserved / not one"
         ELSE IF Own({"C08", "C10"}) /\ ~Rec.energy_ok THEN Tag({"C08", "C10"}) \o "energy clause violated"
         ELSE IF Own({"C08"}) /\ ~Rec.dims_ok THEN Tag({"C08"}) \o "bond dimension clause violated"
         ELSE IF Own({"C08"}) /\ ~Rec.boundary_ok THEN Tag({"C08"}) \o "total quantum numbers changed"
         ELSE IF Strict /\ (~(Rec.sparse_ok /\ Rec.types_ok)) THEN "spec: (clause of C02) block sparsity / charge list clause violated"
         ELSE IF Strict THEN "spec: dt / -dt pair does not reduce to the empty word" ELSE "a property clause of this event failed (no specific diagnostic)")
    ELSE "unexpected event"
TReject == /\ tid <= Len(Tr)
           /\ \/ (HasRec /\ ~ENABLED TStep)
              \/ (l > Len(Tr[tid]) /\ pc # "idle")
           /\ PrintT(<<"REJECT", tid, l, IF HasRec THEN Rec.ev ELSE "eot", IF HasRec THEN Diagnose ELSE "trace ended inside a call">>)
           /\ tid' = tid + 1 /\ l' = 1 /\ Blank
TraceNext == TStep \/ TNextTrace \/ TReject
TraceSpec == TraceInit /\ [][TraceNext]_tvars
ASSUME TLCSet(1, {})
TraceDone == PrintT(<<"DONE", TLCGet(1)>>) /\ TLCGet("stats").diameter >= 1
=============================================================================
