----------------------------- MODULE TraceSector -----------------------------
(* C02: block sparsity and list lengths are invariants of every operation     *)
(* sequence.  One trace = one history on a pool of objects                    *)
(* (harness/histgen.py); after EVERY public call the projection of every live *)
(* MPS / MPO is logged:                                                       *)
(*   op  name kind target  objs = <<[id, cls, dims, qlens, kinds_ok,          *)
(*                                   shapes_ok, sparse_ok, q0, qL, zero]>>    *)
(*       boundary_fixed                                                       *)
(* The invariants of Sector.tla are evaluated in every state of the trace:    *)
(* LenOK (each charge list has the length of the dimension it labels),        *)
(* KindOK (integer sequences; a container that later operations cannot use shows as a raise event), SparseOK (additive rule, own mask code), the total  *)
(* charges of a non-zero state are never changed by in-place algorithms, and  *)
(* NeverRaised (an exception on a valid history is a rejected event).         *)
EXTENDS Integers, Sequences, FiniteSets, TLC, Json, IOUtils

Data == JsonDeserialize(IOEnv.TRACE_FILE)
Tr == Data.traces
(* Two levels (harness/parallel.py): the per-call relation between consecutive projections (ActionOK, the actions of Sector.tla: *)
(* direct-sum / product bond dimensions, boundary charges of results, nothing else touched) describes the code; C02 itself is   *)
(* StateOK in every state plus the boundary charges of non-zero states under in-place algorithms (boundary_fixed).              *)
Strict == IF "strict" \in DOMAIN Data THEN Data.strict ELSE TRUE
VARIABLES tid, l, known,
          st            \* Sector!st: id -> projection [cls, q0, qL, zero, dims] after the previous call
tvars == <<tid, l, known, st>>
Rec == Tr[tid][l]
HasRec == tid <= Len(Tr) /\ l <= Len(Tr[tid])
TraceInit == tid = 1 /\ l = 1 /\ known = {} /\ st = <<>>

ObjOK(o) == /\ o.qlens = o.dims                     \* LenOK
            /\ o.kinds_ok /\ o.shapes_ok            \* KindOK
            /\ o.sparse_ok                          \* SparseOK
            /\ o.dims[1] = 1 /\ o.dims[Len(o.dims)] = 1
StateOK == \A k \in DOMAIN Rec.objs : ObjOK(Rec.objs[k])
Ids == {Rec.objs[k].id : k \in DOMAIN Rec.objs}
(* objects never disappear; only "fresh" calls create one *)
PoolOK == known \subseteq Ids /\ (Rec.kind # "fresh" => Ids = known) /\ Cardinality(Ids) = Len(Rec.objs)
(* ---- the actions of Sector.tla, bound to the logged call: st is the projection before, New the one after ---- *)
Proj(o) == [cls |-> o.cls, q0 |-> o.q0, qL |-> o.qL, zero |-> o.zero, dims |-> o.dims]
New == [i \in Ids |-> Proj(Rec.objs[CHOOSE k \in DOMAIN Rec.objs : Rec.objs[k].id = i])]
Old == DOMAIN st
Untouched(S) == \A i \in S : i \in Ids /\ New[i] = st[i]
Inner(d) == [k \in 1..(Len(d) - 2) |-> d[k + 1]]
SumSeq(a, b) == [k \in DOMAIN a |-> a[k] + b[k]]
QSum(a, b) == IF a = <<>> \/ b = <<>> THEN <<>> ELSE <<a[1] + b[1]>>
ActionOK ==
    LET r == Rec.created  ops == Rec.operands IN
    CASE Rec.rule \in {"pure", "graph"} -> Untouched(Old) /\ (r = 0 \/ Rec.rule = "graph")            \* Sector: no action
      [] Rec.rule = "create" -> Untouched(Old) /\ r \in Ids \ Old                                        \* Sector!Create
      [] Rec.rule = "from_vector" ->                                                                       \* Sector!FromVector
            /\ Untouched(Old) /\ r \in Ids \ Old
            /\ New[r].cls = "mps" /\ New[r].q0 = <<0>> /\ New[r].qL = <<0>>
      [] Rec.rule = "inplace" ->                                                                           \* Sector!InPlace
            /\ Rec.target \in Old /\ Untouched(Old \ {Rec.target}) /\ Ids = Old
            /\ New[Rec.target].cls = st[Rec.target].cls
            /\ Len(New[Rec.target].dims) = Len(st[Rec.target].dims)
            /\ (~st[Rec.target].zero) => (New[Rec.target].q0 = st[Rec.target].q0 /\ New[Rec.target].qL = st[Rec.target].qL)
            \* (a zero state may come back as a unit-norm state: the QR of a zero block returns an isometry and R = 0)
      [] Rec.rule = "add" ->                                                                               \* Sector!Add
            /\ Len(ops) = 2 /\ ops[1] \in Old /\ ops[2] \in Old /\ Untouched(Old) /\ r \in Ids \ Old
            /\ New[r].cls = st[ops[1]].cls /\ st[ops[2]].cls = st[ops[1]].cls
            /\ New[r].q0 = st[ops[1]].q0 /\ New[r].qL = st[ops[1]].qL
            /\ st[ops[2]].q0 = st[ops[1]].q0 /\ st[ops[2]].qL = st[ops[1]].qL
            /\ Len(New[r].dims) = Len(st[ops[1]].dims)
            /\ Inner(New[r].dims) = SumSeq(Inner(st[ops[1]].dims), Inner(st[ops[2]].dims))                  \* direct sum on interior bonds
      [] Rec.rule \in {"apply", "mul"} ->                                                                  \* Sector!Apply
            /\ Len(ops) = 2 /\ ops[1] \in Old /\ ops[2] \in Old /\ Untouched(Old) /\ r \in Ids \ Old
            /\ st[ops[1]].cls = "mpo" /\ New[r].cls = st[ops[2]].cls
            /\ New[r].q0 = QSum(st[ops[1]].q0, st[ops[2]].q0) /\ New[r].qL = QSum(st[ops[1]].qL, st[ops[2]].qL)
            /\ New[r].dims = [k \in DOMAIN st[ops[1]].dims |-> st[ops[1]].dims[k] * st[ops[2]].dims[k]]   \* bonds multiply
      [] OTHER -> FALSE
OpOK == StateOK /\ PoolOK /\ Rec.boundary_fixed /\ (Strict => ActionOK)

TOp == /\ HasRec /\ Rec.ev = "op" /\ (OpOK = TRUE)
       /\ known' = Ids /\ st' = New /\ l' = l + 1 /\ tid' = tid
TNextTrace == /\ tid <= Len(Tr) /\ l > Len(Tr[tid])
              /\ TLCSet(1, TLCGet(1) \cup {tid})
              /\ tid' = tid + 1 /\ l' = 1 /\ known' = {} /\ st' = <<>>
Bad == CHOOSE k \in DOMAIN Rec.objs : ~ObjOK(Rec.objs[k])
Diagnose ==
    IF Rec.ev = "raise" THEN "exception in a valid history: " \o Rec.op \o ": " \o Rec.exc
    ELSE IF ~StateOK THEN
        (IF Rec.objs[Bad].qlens # Rec.objs[Bad].dims THEN "after " \o Rec.name \o ": length of a quantum-number list differs from the dimension it labels"
         ELSE IF ~Rec.objs[Bad].sparse_ok THEN "after " \o Rec.name \o ": a non-zero tensor entry violates the additive quantum-number rule"
         ELSE IF ~Rec.objs[Bad].kinds_ok THEN "after " \o Rec.name \o ": quantum numbers are not stored as integer sequences"
         ELSE "after " \o Rec.name \o ": tensor shapes inconsistent")
    ELSE IF ~Rec.boundary_fixed THEN "after " \o Rec.name \o ": total quantum numbers of a non-zero state changed"
    ELSE IF Strict /\ (PoolOK /\ ~ActionOK) THEN "spec: after " \o Rec.name \o ": the projections before / after the call are not related by the " \o Rec.rule \o " action of Sector.tla"
    ELSE "after " \o Rec.name \o ": an object disappeared from / appeared in the pool unexpectedly"
TReject == /\ HasRec /\ (IF Rec.ev # "op" THEN TRUE ELSE (OpOK = FALSE))        \* IF: TLC evaluates both sides of an action-level \/
           /\ PrintT(<<"REJECT", tid, l, Rec.ev, Diagnose>>)
           /\ tid' = tid + 1 /\ l' = 1 /\ known' = {} /\ st' = <<>>
TraceNext == TOp \/ TNextTrace \/ TReject
TraceSpec == TraceInit /\ [][TraceNext]_tvars
ASSUME TLCSet(1, {})
TraceDone == PrintT(<<"DONE", TLCGet(1)>>) /\ TLCGet("stats").diameter >= 1
=============================================================================
