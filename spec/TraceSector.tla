----------------------------- MODULE TraceSector -----------------------------
(* C02: block sparsity and list lengths are invariants of every operation     *)
(* sequence.  One trace = one history on a pool of objects                    *)
(* (harness/histgen.py); after EVERY public call the projection of every live *)
(* MPS / MPO is logged:                                                       *)
(*   op  name kind target  objs = <<[id, cls, dims, qlens, kinds_ok,          *)
(*                                   shapes_ok, sparse_ok, q0, qL, zero]>>    *)
(*       boundary_fixed                                                       *)
(* The invariants of Sector.tla are evaluated in every state of the trace:    *)
(* LenOK (each charge list has the length of the dimension it labels),        *)
(* KindOK (integer sequences; a container that later operations cannot use shows as a raise event), SparseOK (additive rule, own mask code), the total  *)
(* charges of a non-zero state are never changed by in-place algorithms, and  *)
(* NeverRaised (an exception on a valid history is a rejected event).         *)
EXTENDS Integers, Sequences, FiniteSets, TLC, Json, IOUtils

Data == JsonDeserialize(IOEnv.TRACE_FILE)
Tr == Data.traces
VARIABLES tid, l, known
tvars == <<tid, l, known>>
Rec == Tr[tid][l]
HasRec == tid <= Len(Tr) /\ l <= Len(Tr[tid])
TraceInit == tid = 1 /\ l = 1 /\ known = {}

ObjOK(o) == /\ o.qlens = o.dims                     \* LenOK
            /\ o.kinds_ok /\ o.shapes_ok            \* KindOK
            /\ o.sparse_ok                          \* SparseOK
            /\ o.dims[1] = 1 /\ o.dims[Len(o.dims)] = 1
StateOK == \A k \in DOMAIN Rec.objs : ObjOK(Rec.objs[k])
Ids == {Rec.objs[k].id : k \in DOMAIN Rec.objs}
(* objects never disappear; only "fresh" calls create one *)
PoolOK == known \subseteq Ids /\ (Rec.kind # "fresh" => Ids = known) /\ Cardinality(Ids) = Len(Rec.objs)
OpOK == StateOK /\ PoolOK /\ Rec.boundary_fixed

TOp == /\ HasRec /\ Rec.ev = "op" /\ (OpOK = TRUE)
       /\ known' = Ids /\ l' = l + 1 /\ tid' = tid
TNextTrace == /\ tid <= Len(Tr) /\ l > Len(Tr[tid])
              /\ TLCSet(1, TLCGet(1) \cup {tid})
              /\ tid' = tid + 1 /\ l' = 1 /\ known' = {}
Bad == CHOOSE k \in DOMAIN Rec.objs : ~ObjOK(Rec.objs[k])
Diagnose ==
    IF Rec.ev = "raise" THEN "exception in a valid history: " \o Rec.op \o ": " \o Rec.exc
    ELSE IF ~StateOK THEN
        (IF Rec.objs[Bad].qlens # Rec.objs[Bad].dims THEN "after " \o Rec.name \o ": length of a quantum-number list differs from the dimension it labels"
         ELSE IF ~Rec.objs[Bad].sparse_ok THEN "after " \o Rec.name \o ": a non-zero tensor entry violates the additive quantum-number rule"
         ELSE IF ~Rec.objs[Bad].kinds_ok THEN "after " \o Rec.name \o ": quantum numbers are not stored as integer sequences"
         ELSE "after " \o Rec.name \o ": tensor shapes inconsistent")
    ELSE IF ~Rec.boundary_fixed THEN "after " \o Rec.name \o ": total quantum numbers of a non-zero state changed"
    ELSE "after " \o Rec.name \o ": an object disappeared from / appeared in the pool unexpectedly"
TReject == /\ HasRec /\ ((Rec.ev # "op") \/ (OpOK = FALSE))
           /\ PrintT(<<"REJECT", tid, l, Rec.ev, Diagnose>>)
           /\ tid' = tid + 1 /\ l' = 1 /\ known' = {}
TraceNext == TOp \/ TNextTrace \/ TReject
TraceSpec == TraceInit /\ [][TraceNext]_tvars
ASSUME TLCSet(1, {})
TraceDone == PrintT(<<"DONE", TLCGet(1)>>) /\ TLCGet("stats").diameter >= 1
=============================================================================
