-------------------------------- MODULE Chain --------------------------------
(* The homomorphism laws of MPS / MPO arithmetic (C03) for the block /         *)
(* Kronecker constructions of ChainOps.tla, checked by TLC for EVERY pair of   *)
(* operands of a bounded universe (all tensors with entries in ENT on the      *)
(* given bond profile).  The constructions are multilinear in the entries, so  *)
(* agreement on {0,1}-valued (and on i-valued) entries extends to all complex  *)
(* entries of those shapes.                                                    *)
(* Two independent formulations are compared: Vec / Mat by site-wise index     *)
(* sums on the constructed tensors versus dense vector / matrix algebra on     *)
(* the operands' dense forms.                                                  *)
EXTENDS ChainOps

CONSTANTS L, D, ENT, Kind       \* sites, physical dimension is 2, bond dimension D (1 at the ends), entries, "mps" | "mpo" | "apply"

Dl(i) == IF i = 1 THEN 1 ELSE D
Dr(i) == IF i = L THEN 1 ELSE D
MpsSet == [1..L -> UNION {[1..2 -> [1..Dl(i) -> [1..Dr(i) -> ENT]]] : i \in 1..L}]
IsMps(As) == \A i \in 1..L : As[i] \in [1..2 -> [1..Dl(i) -> [1..Dr(i) -> ENT]]]
MpoSet == [1..L -> UNION {[1..2 -> [1..2 -> [1..Dl(i) -> [1..Dr(i) -> ENT]]]] : i \in 1..L}]
IsMpo(Ws) == \A i \in 1..L : Ws[i] \in [1..2 -> [1..2 -> [1..Dl(i) -> [1..Dr(i) -> ENT]]]]

VARIABLES X, Y
vars == <<X, Y>>
Init == IF Kind = "mps" THEN X \in {a \in MpsSet : IsMps(a)} /\ Y \in {a \in MpsSet : IsMps(a)}
        ELSE IF Kind = "mpo" THEN X \in {a \in MpoSet : IsMpo(a)} /\ Y \in {a \in MpoSet : IsMpo(a)}
        ELSE X \in {a \in MpoSet : IsMpo(a)} /\ Y \in {a \in MpsSet : IsMps(a)}
Next == UNCHANGED vars
Spec == Init /\ [][Next]_vars

AddLaw == Kind = "mps" =>
             /\ Vec(AddMPS(X, Y, GOne)) = VAdd(Vec(X), Vec(Y))
             /\ Vec(AddMPS(X, Y, GInt(-1))) = VAdd(Vec(X), VScale(GInt(-1), Vec(Y)))
MulLaw == Kind = "mpo" => Mat(MulMPO(X, Y)) = GMatMul(Mat(X), Mat(Y))
ApplyLaw == Kind = "apply" => Vec(ApplyMPO(X, Y)) = MVec(Mat(X), Vec(Y))
(* inner product by transfer contraction from the right equals the dense one, and from the left as well *)
TransferLaw == Kind = "mps" =>
    LET n == L
        R[k \in 0..n] == IF k = 0 THEN <<<<GOne>>>>
                         ELSE LET A == X[n - k + 1]  B == Y[n - k + 1]
                              IN [a \in 1..BondL(A) |-> [b \in 1..BondL(B) |->
                                    GSum(2, LAMBDA s : GSum(BondR(A), LAMBDA a2 : GSum(BondR(B), LAMBDA b2 :
                                       GMul(GMul(A[s][a][a2], GConj(B[s][b][b2])), R[k-1][a2][b2]))))]]
    IN R[n][1][1] = VDot(Vec(Y), Vec(X))
=============================================================================
