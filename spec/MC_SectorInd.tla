---------------------------- MODULE MC_SectorInd ----------------------------
(* Apalache wrapper for Sector.tla: LenOK / KindOK / NeverRaised as an INDUCTIVE invariant, i.e. for histories of any     *)
(* length (TLC explores depth <= MaxDepth).                                                                               *)
(*   apalache-mc check --init=Init    --inv=IndInv --length=0 MC_SectorInd.tla                                            *)
(*   apalache-mc check --init=IndInit --inv=IndInv --length=1 MC_SectorInd.tla                                            *)
(* MC_SectorIndLegacy (LegacyFromVector = TRUE, finding F3) must fail the inductive step.                                 *)
EXTENDS Integers, FiniteSets

NOBJ == 3
MaxDepth == 1000000
LegacyFromVector == FALSE
ZeroCreate == {TRUE, FALSE}

VARIABLES
    \* @type: Set(Int);
    live,
    \* @type: Int -> { cls: Str, kind: Str, lenok: Bool, q0: Int, qL: Int, zero: Bool };
    st,
    \* @type: Int;
    depth,
    \* @type: Bool;
    raised,
    \* @type: { op: Str, o: Int, a: Int, b: Int, sub: Bool };
    last

INSTANCE Sector

(* the pre-state of the inductive step: boundary charges range over -8..8 (the actions compare charges only for equality and add  *)
(* them, so the invariant below does not constrain them and the step does not depend on their magnitude)                          *)
PreState == /\ live \in SUBSET Obj
            /\ st \in [Obj -> [cls : {"none", "mps", "mpo"}, kind : {"ndarray", "list"}, lenok : BOOLEAN, q0 : -8..8, qL : -8..8, zero : BOOLEAN]]
            /\ depth \in 0..(MaxDepth - 1) /\ raised \in BOOLEAN
            /\ last \in [op : {"init", "create", "from_vector", "inplace", "add", "apply"}, o : 0..NOBJ, a : 0..NOBJ, b : 0..NOBJ, sub : BOOLEAN]
IndInv == /\ live \subseteq Obj /\ LenOK /\ KindOK /\ NeverRaised
          /\ \A o \in live : st[o].cls \in {"mps", "mpo"}
IndInit == PreState /\ IndInv
=============================================================================
