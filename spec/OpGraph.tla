------------------------------ MODULE OpGraph ------------------------------
(* Rewrites of operator graphs (pytenet/opgraph.py): merge_edges, simplify  *)
(* (as a sequence of _simplify_step merges), rename_node_id, rename_edge_id,*)
(* flip and add.  Each action carries the guards the code has (asserts and  *)
(* ValueErrors are guards: a call that violates them is not a step).        *)
(*                                                                          *)
(* den0 is a history variable: the polynomial the graph is supposed to      *)
(* denote according to the contract of each action (unchanged by merges and *)
(* renames, word-reversed by flip, sum for add).  DenOK: Den(G) = den0.     *)
EXTENDS OpGraphOps

----------------------------------------------------------------------------
CONSTANTS L,            \* graph length
          OIDS, COEFS, QS,
          MaxTerms,     \* terms of the first graph
          MaxTerms2,    \* terms of the graph handed to add (0: no add)
          COEFS2,       \* coefficients of those terms
          RELABELS,     \* id relabelings applied to the second operand (subset of Relabelings)
          MaxOps        \* bound on the number of non-merge operations in a behaviour

VARIABLES G, den0, nops, last
vars == <<G, den0, nops, last>>

Word == [1..L -> OIDS]
Term == [w : Word, c : COEFS, q : [1..(L-1) -> QS]]
(* terms are inserted in non-decreasing order (multisets): the graph does not depend on the order up to ids *)
TermLE(a, b) == \/ a.c < b.c
                \/ a.c = b.c /\ \A i \in 1..L : (\A j \in 1..(i-1) : a.w[j] = b.w[j]) => a.w[i] <= b.w[i]
Sorted(ts) == \A i \in 1..(Len(ts) - 1) : TermLE(ts[i], ts[i+1])
TermSeqs(n) == UNION {[1..k -> Term] : k \in 1..n}

(* The first graph is built term by term (phase "build": one path per term, as _insert_opchain would add it), *)
(* so that the model has a single initial state and TLC can also simulate it for large alphabets.            *)
Init == /\ G = TermGraph(L, <<>>)
        /\ den0 = {}
        /\ nops = 0 /\ last = [op |-> "build", terms |-> <<>>]

Build(t) ==
    /\ last.op = "build" /\ Len(last.terms) < MaxTerms
    /\ Len(last.terms) > 0 => TermLE(last.terms[Len(last.terms)], t)
    /\ G' = TermGraph(L, Append(last.terms, t))
    /\ den0' = PolyAdd(den0, PolyTerm(t.w, t.c))
    /\ last' = [op |-> "build", terms |-> Append(last.terms, t)]
    /\ UNCHANGED nops

Start == /\ last.op = "build" /\ Len(last.terms) > 0
         /\ last' = [op |-> "init"]
         /\ UNCHANGED <<G, den0, nops>>

Running == last.op # "build"
(* renames, flips and adds are applied to freshly built and to fully simplified graphs *)
OpPoint == Running /\ nops < MaxOps /\ (last.op = "init" \/ Simplified(G))

(* id relabelings applied to the second operand of add: identical ids, shifted, swapped terminals, disjoint *)
Relabelings == {"same", "shift", "swap", "far"}
RelabelBy(H, r) ==
    IF r = "same" THEN H
    ELSE IF r = "shift" THEN Relabel(H, LAMBDA n : n + 1, LAMBDA e : e + 1)
    ELSE IF r = "swap" THEN Relabel(H, LAMBDA n : IF n = 0 THEN 1 ELSE IF n = 1 THEN 0 ELSE n, LAMBDA e : e)
    ELSE Relabel(H, LAMBDA n : n + 40, LAMBDA e : e + 40)

(* the actions proper: one per public rewrite, parametrised by the arguments of the call.  The model's Next    *)
(* quantifies over the arguments; the trace specification binds them to the logged ones.                      *)
MergeAct(e1, e2, dir) ==
    /\ CanMerge(G, e1, e2, dir)
    /\ G' = MergeEdges(G, e1, e2, dir)
    /\ UNCHANGED den0

SimplifyMergeAct(e1, e2, dir) ==          \* one merge done by _simplify_step(dir)
    /\ Mergeable(G, e1, e2, dir)
    /\ MergeAct(e1, e2, dir)

RenameNodeAct(a, b) ==
    /\ a \in NodeIds(G) /\ b \notin NodeIds(G)
    /\ G' = RenameNode(G, a, b)
    /\ UNCHANGED den0

RenameEdgeAct(a, b) ==
    /\ a \in EdgeIds(G) /\ b \notin EdgeIds(G)
    /\ G' = RenameEdge(G, a, b)
    /\ UNCHANGED den0

FlipAct == G' = FlipGraph(G) /\ den0' = PolyReverse(den0)

AddUnionOrdAct(H, ordN, ordE) ==          \* add() up to (excluding) its final simplify()
    /\ CanAdd(G, H)
    /\ IsEnumOf(ordN, SharedNodes(G, H)) /\ IsEnumOf(ordE, SharedEdges(G, H))
    /\ G' = AddUnionOrd(G, H, ordN, ordE)
    /\ den0' = PolyAdd(den0, Den(H))

AddUnionAct(H) == AddUnionOrdAct(H, SortedSeqOf(SharedNodes(G, H)), SortedSeqOf(SharedEdges(G, H)))

(* _insert_opchain between two existing nodes whose levels differ by the chain length: adds (paths to the start node) x    *)
(* chain x (paths from the end node) to the meaning                                                                      *)
InsertChainAct(a, b, oids, coeffs, qs, dir) ==
    /\ a \in NodeIds(G) /\ b \in NodeIds(G) /\ Len(oids) >= 1 /\ Len(coeffs) = Len(oids) /\ Len(qs) = Len(oids) - 1
    /\ dir \in {0, 1}
    /\ IF dir = 1 THEN LevelOf(G, b) - LevelOf(G, a) = Len(oids) ELSE LevelOf(G, a) - LevelOf(G, b) = Len(oids)
    /\ G' = InsertChain(G, a, b, oids, coeffs, qs, dir)
    /\ den0' = PolyAdd(den0, IF dir = 1 THEN PolyMul(PolyMul(PathsToNode(G, a), ChainWordPoly(oids, coeffs, 1)), PathsFromNode(G, b))
                                ELSE PolyMul(PolyMul(PathsToNode(G, b), ChainWordPoly(oids, coeffs, 0)), PathsFromNode(G, a)))

SimplifyStep(dir) ==
    /\ Running
    /\ \E p \in MergeablePairs(G, dir) :
          SimplifyMergeAct(p[1], p[2], dir) /\ last' = [op |-> "merge", e1 |-> p[1], e2 |-> p[2], dir |-> dir]
    /\ UNCHANGED nops

DoRenameNode ==
    /\ OpPoint
    /\ \E a \in NodeIds(G), b \in {Max(NodeIds(G)) + 1, 77} :
          RenameNodeAct(a, b) /\ last' = [op |-> "rename_node", a |-> a, b |-> b]
    /\ nops' = nops + 1

DoRenameEdge ==
    /\ OpPoint /\ EdgeIds(G) # {}
    /\ \E a \in EdgeIds(G), b \in {Max(EdgeIds(G)) + 1, 78} :
          RenameEdgeAct(a, b) /\ last' = [op |-> "rename_edge", a |-> a, b |-> b]
    /\ nops' = nops + 1

DoFlip ==
    /\ OpPoint
    /\ FlipAct
    /\ nops' = nops + 1 /\ last' = [op |-> "flip"]

DoAdd ==
    /\ OpPoint /\ MaxTerms2 > 0
    /\ \E ts \in {x \in TermSeqs(MaxTerms2) : Sorted(x) /\ \A i \in DOMAIN x : x[i].c \in COEFS2}, r \in RELABELS :
          LET H == RelabelBy(TermGraph(L, ts), r)
          IN AddUnionAct(H) /\ last' = [op |-> "add", h |-> H]
    /\ nops' = nops + 1

Next == (\E t \in Term : Build(t)) \/ Start \/ SimplifyStep(0) \/ SimplifyStep(1) \/ DoRenameNode \/ DoRenameEdge \/ DoFlip \/ DoAdd

Spec == Init /\ [][Next]_vars

----------------------------------------------------------------------------
(* C16 *)
DenOK == Den(G) = den0                        \* the denoted operator follows the contract of every rewrite
DenTwoWays == DenBackward(G) = Den(G)         \* two independent formulations of the meaning agree
ConsistentOK == (Running \/ Len(last.terms) > 0) => (ConsistentG(G) /\ UniqueOids(G))
LengthOK == (Running \/ Len(last.terms) > 0) => GraphLength(G) = L

(* simplification never increases the number of nodes or edges nor any layer width, and terminates: *)
(* every merge removes exactly one edge *)
MergeShrinks ==
    [][last'.op = "merge" =>
          /\ NumEdges(G') = NumEdges(G) - 1
          /\ NumNodes(G') <= NumNodes(G)
          /\ \A lev \in 0..L : Width(G', lev) <= Width(G, lev)]_vars

(* renames do not change the shape *)
RenameKeepsShape ==
    [][last'.op \in {"rename_node", "rename_edge"} => (NumEdges(G') = NumEdges(G) /\ NumNodes(G') = NumNodes(G))]_vars
=============================================================================
