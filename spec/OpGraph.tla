------------------------------ MODULE OpGraph ------------------------------
(* Rewrites of operator graphs (pytenet/opgraph.py): merge_edges, simplify  *)
(* (as a sequence of _simplify_step merges), rename_node_id, rename_edge_id,*)
(* flip and add.  Each action carries the guards the code has (asserts and  *)
(* ValueErrors are guards: a call that violates them is not a step).        *)
(*                                                                          *)
(* den0 is a history variable: the polynomial the graph is supposed to      *)
(* denote according to the contract of each action (unchanged by merges and *)
(* renames, word-reversed by flip, sum for add).  DenOK: Den(G) = den0.     *)
EXTENDS GraphOps, TLC

----------------------------------------------------------------------------
(* the rewrite operators, shared with the trace specification *)
Base(G, e, dir) == IF dir = 0 THEN G.edges[e].src ELSE G.edges[e].dst
Far(G, e, dir)  == IF dir = 0 THEN G.edges[e].dst ELSE G.edges[e].src
Toward(G, n, dir) == IF dir = 0 THEN G.nodes[n].ein ELSE G.nodes[n].eout     \* node.eids[direction]
Away(G, n, dir)   == IF dir = 0 THEN G.nodes[n].eout ELSE G.nodes[n].ein     \* node.eids[1-direction]

SetAway(nd, dir, S)   == IF dir = 0 THEN [nd EXCEPT !.eout = S] ELSE [nd EXCEPT !.ein = S]
SetToward(nd, dir, S) == IF dir = 0 THEN [nd EXCEPT !.ein = S] ELSE [nd EXCEPT !.eout = S]
SetBase(ed, dir, n)   == IF dir = 0 THEN [ed EXCEPT !.src = n] ELSE [ed EXCEPT !.dst = n]

(* guards of merge_edges: the asserts of opgraph.py:456-486 *)
CanMerge(G, e1, e2, dir) ==
    /\ e1 \in EdgeIds(G) /\ e2 \in EdgeIds(G) /\ e1 # e2 /\ dir \in {0, 1}
    /\ Base(G, e1, dir) = Base(G, e2, dir)
    /\ \/ Far(G, e1, dir) = Far(G, e2, dir)
       \/ /\ G.edges[e1].ops = G.edges[e2].ops
          /\ Cardinality(Toward(G, Far(G, e1, dir), dir)) = 1
          /\ Cardinality(Toward(G, Far(G, e2, dir), dir)) = 1
          /\ G.nodes[Far(G, e1, dir)].q = G.nodes[Far(G, e2, dir)].q

MergeEdges(G, e1, e2, dir) ==
    LET b  == Base(G, e2, dir)
        f1 == Far(G, e1, dir)
        f2 == Far(G, e2, dir)
        edgesLeft == RestrictTo(G.edges, EdgeIds(G) \ {e2})
    IN IF f1 = f2
       THEN [G EXCEPT !.edges = [edgesLeft EXCEPT ![e1].ops = OpsAdd(G.edges[e1].ops, G.edges[e2].ops)],
                      !.nodes = [n \in NodeIds(G) |->
                                   LET nd0 == G.nodes[n]
                                       nd1 == IF n = b THEN SetAway(nd0, dir, Away(G, n, dir) \ {e2}) ELSE nd0
                                       nd2 == IF n = f2 THEN SetToward(nd1, dir, (IF dir = 0 THEN nd1.ein ELSE nd1.eout) \ {e2}) ELSE nd1
                                   IN nd2]]
       ELSE [G EXCEPT !.edges = [e \in EdgeIds(G) \ {e2} |->
                                   IF e \in Away(G, f2, dir) THEN SetBase(G.edges[e], dir, f1) ELSE G.edges[e]],
                      !.nodes = [n \in NodeIds(G) \ {f2} |->
                                   IF n = b THEN SetAway(G.nodes[n], dir, Away(G, n, dir) \ {e2})
                                   ELSE IF n = f1 THEN SetAway(G.nodes[n], dir, Away(G, f1, dir) \cup Away(G, f2, dir))
                                   ELSE G.nodes[n]]]

(* the pairs _simplify_step(dir) is allowed to pick (it takes the first one it meets on its sweep) *)
Mergeable(G, e1, e2, dir) ==
    /\ e1 \in EdgeIds(G) /\ e2 \in EdgeIds(G) /\ e1 # e2
    /\ Base(G, e1, dir) = Base(G, e2, dir)
    /\ \/ Far(G, e1, dir) = Far(G, e2, dir)
       \/ /\ G.edges[e1].ops = G.edges[e2].ops
          /\ Cardinality(Toward(G, Far(G, e1, dir), dir)) = 1
          /\ Cardinality(Toward(G, Far(G, e2, dir), dir)) = 1
          /\ G.nodes[Far(G, e1, dir)].q = G.nodes[Far(G, e2, dir)].q

MergeablePairs(G, dir) == {p \in EdgeIds(G) \X EdgeIds(G) : Mergeable(G, p[1], p[2], dir)}
Simplified(G) == MergeablePairs(G, 0) = {} /\ MergeablePairs(G, 1) = {}

RenameNode(G, a, b) ==
    [G EXCEPT !.nodes = [n \in (NodeIds(G) \ {a}) \cup {b} |-> IF n = b THEN G.nodes[a] ELSE G.nodes[n]],
              !.edges = [e \in EdgeIds(G) |->
                           [G.edges[e] EXCEPT !.src = IF @ = a THEN b ELSE @, !.dst = IF @ = a THEN b ELSE @]],
              !.term = <<IF G.term[1] = a THEN b ELSE G.term[1], IF G.term[2] = a THEN b ELSE G.term[2]>>]

RenameEdge(G, a, b) ==
    LET sub(S) == IF a \in S THEN (S \ {a}) \cup {b} ELSE S
    IN [G EXCEPT !.edges = [e \in (EdgeIds(G) \ {a}) \cup {b} |-> IF e = b THEN G.edges[a] ELSE G.edges[e]],
                 !.nodes = [n \in NodeIds(G) |-> [G.nodes[n] EXCEPT !.ein = sub(@), !.eout = sub(@)]]]

FlipGraph(G) ==
    [nodes |-> [n \in NodeIds(G) |-> [q |-> G.nodes[n].q, ein |-> G.nodes[n].eout, eout |-> G.nodes[n].ein]],
     edges |-> [e \in EdgeIds(G) |-> [src |-> G.edges[e].dst, dst |-> G.edges[e].src, ops |-> G.edges[e].ops]],
     term  |-> <<G.term[2], G.term[1]>>]

MaxOf(S, dflt) == IF S = {} THEN dflt ELSE Max(S)

(* OpGraph.add before its final simplify(): opgraph.py:606-632.  H is the other graph.  Shared ids of H are    *)
(* renamed to fresh consecutive ids in the iteration order of a Python set, which the model leaves open: ordN /   *)
(* ordE are any enumerations of the shared node / edge ids.                                                      *)
RECURSIVE RenameNodesSeq(_, _, _)
RenameNodesSeq(H, ids, next) ==
    IF ids = <<>> THEN H ELSE RenameNodesSeq(RenameNode(H, Head(ids), next), Tail(ids), next + 1)
RECURSIVE RenameEdgesSeq(_, _, _)
RenameEdgesSeq(H, ids, next) ==
    IF ids = <<>> THEN H ELSE RenameEdgesSeq(RenameEdge(H, Head(ids), next), Tail(ids), next + 1)

SharedNodes(G, H) == NodeIds(G) \cap NodeIds(H)
SharedEdges(G, H) == EdgeIds(G) \cap EdgeIds(H)
IsEnumOf(s, S) == Len(s) = Cardinality(S) /\ {s[i] : i \in 1..Len(s)} = S

AddUnionOrd(G, H, ordN, ordE) ==
    LET nextN   == Max(NodeIds(G) \cup NodeIds(H)) + 1
        H1 == RenameNodesSeq(H, ordN, nextN)
        nextE   == MaxOf(EdgeIds(G) \cup EdgeIds(H1) \cup {0}, 0) + 1
        H2 == RenameEdgesSeq(H1, ordE, nextE)
        H3 == RenameNode(H2, H2.term[1], G.term[1])
        H4 == RenameNode(H3, H3.term[2], G.term[2])
        inner == NodeIds(H4) \ {G.term[1], G.term[2]}
    IN [nodes |-> [n \in NodeIds(G) \cup inner |->
                      IF n = G.term[1] THEN [G.nodes[n] EXCEPT !.eout = @ \cup H4.nodes[n].eout]
                      ELSE IF n = G.term[2] THEN [G.nodes[n] EXCEPT !.ein = @ \cup H4.nodes[n].ein]
                      ELSE IF n \in inner THEN H4.nodes[n] ELSE G.nodes[n]],
        edges |-> [e \in EdgeIds(G) \cup EdgeIds(H4) |-> IF e \in EdgeIds(H4) THEN H4.edges[e] ELSE G.edges[e]],
        term  |-> G.term]

AddUnion(G, H) == AddUnionOrd(G, H, SortedSeqOf(SharedNodes(G, H)), SortedSeqOf(SharedEdges(G, H)))

(* precondition of add: both graphs consistent, same length, distinct terminals, charges of the terminals agree *)
CanAdd(G, H) == /\ ConsistentG(G) /\ ConsistentG(H)
                /\ GraphLength(G) = GraphLength(H)
                /\ G.term[1] # G.term[2] /\ H.term[1] # H.term[2]

----------------------------------------------------------------------------
(* construction of the initial graphs: one path per term ("tree expansion"), sharing only the terminals *)
\* a term is a record [w : word of length L, c : coefficient, q : sequence of L-1 node charges]
TermNode(L, t, j) == IF j = 0 THEN 0 ELSE IF j = L THEN 1 ELSE 2 + (t - 1) * (L - 1) + (j - 1)
TermEdge(L, t, j) == (t - 1) * L + j - 1      \* j in 1..L

TermGraph(L, terms) ==
    LET T == 1..Len(terms)
        inner == {<<t, j>> : t \in T, j \in 1..(L-1)}
        nid(tj) == TermNode(L, tj[1], tj[2])
        eset == {<<t, j>> : t \in T, j \in 1..L}
    IN [nodes |-> [n \in {0, 1} \cup {nid(tj) : tj \in inner} |->
                     IF n = 0 THEN [q |-> 0, ein |-> {}, eout |-> {TermEdge(L, t, 1) : t \in T}]
                     ELSE IF n = 1 THEN [q |-> 0, ein |-> {TermEdge(L, t, L) : t \in T}, eout |-> {}]
                     ELSE LET tj == CHOOSE x \in inner : nid(x) = n
                          IN [q |-> terms[tj[1]].q[tj[2]], ein |-> {TermEdge(L, tj[1], tj[2])},
                              eout |-> {TermEdge(L, tj[1], tj[2] + 1)}]],
        edges |-> [e \in {TermEdge(L, tj[1], tj[2]) : tj \in eset} |->
                     LET tj == CHOOSE x \in eset : TermEdge(L, x[1], x[2]) = e
                     IN [src |-> TermNode(L, tj[1], tj[2] - 1), dst |-> TermNode(L, tj[1], tj[2]),
                         ops |-> {<<terms[tj[1]].w[tj[2]], IF tj[2] = 1 THEN terms[tj[1]].c ELSE 1>>}]],
        term |-> <<0, 1>>]

TermsPoly(terms) == PolyOfTerms([i \in DOMAIN terms |-> <<terms[i].w, terms[i].c>>])

(* relabel all ids of a graph by injective maps *)
Relabel(G, fn(_), fe(_)) ==
    [nodes |-> [m \in {fn(n) : n \in NodeIds(G)} |->
                  LET n == CHOOSE x \in NodeIds(G) : fn(x) = m
                  IN [q |-> G.nodes[n].q, ein |-> {fe(e) : e \in G.nodes[n].ein}, eout |-> {fe(e) : e \in G.nodes[n].eout}]],
     edges |-> [d \in {fe(e) : e \in EdgeIds(G)} |->
                  LET e == CHOOSE x \in EdgeIds(G) : fe(x) = d
                  IN [src |-> fn(G.edges[e].src), dst |-> fn(G.edges[e].dst), ops |-> G.edges[e].ops]],
     term |-> <<fn(G.term[1]), fn(G.term[2])>>]

----------------------------------------------------------------------------
CONSTANTS L,            \* graph length
          OIDS, COEFS, QS,
          MaxTerms,     \* terms of the first graph
          MaxTerms2,    \* terms of the graph handed to add (0: no add)
          COEFS2,       \* coefficients of those terms
          RELABELS,     \* id relabelings applied to the second operand (subset of Relabelings)
          MaxOps        \* bound on the number of non-merge operations in a behaviour

VARIABLES G, den0, nops, last
vars == <<G, den0, nops, last>>

Word == [1..L -> OIDS]
Term == [w : Word, c : COEFS, q : [1..(L-1) -> QS]]
(* terms are inserted in non-decreasing order (multisets): the graph does not depend on the order up to ids *)
TermLE(a, b) == \/ a.c < b.c
                \/ a.c = b.c /\ \A i \in 1..L : (\A j \in 1..(i-1) : a.w[j] = b.w[j]) => a.w[i] <= b.w[i]
Sorted(ts) == \A i \in 1..(Len(ts) - 1) : TermLE(ts[i], ts[i+1])
TermSeqs(n) == UNION {[1..k -> Term] : k \in 1..n}

(* The first graph is built term by term (phase "build": one path per term, as _insert_opchain would add it), *)
(* so that the model has a single initial state and TLC can also simulate it for large alphabets.            *)
Init == /\ G = TermGraph(L, <<>>)
        /\ den0 = {}
        /\ nops = 0 /\ last = [op |-> "build", terms |-> <<>>]

Build(t) ==
    /\ last.op = "build" /\ Len(last.terms) < MaxTerms
    /\ Len(last.terms) > 0 => TermLE(last.terms[Len(last.terms)], t)
    /\ G' = TermGraph(L, Append(last.terms, t))
    /\ den0' = PolyAdd(den0, PolyTerm(t.w, t.c))
    /\ last' = [op |-> "build", terms |-> Append(last.terms, t)]
    /\ UNCHANGED nops

Start == /\ last.op = "build" /\ Len(last.terms) > 0
         /\ last' = [op |-> "init"]
         /\ UNCHANGED <<G, den0, nops>>

Running == last.op # "build"
(* renames, flips and adds are applied to freshly built and to fully simplified graphs *)
OpPoint == Running /\ nops < MaxOps /\ (last.op = "init" \/ Simplified(G))

(* id relabelings applied to the second operand of add: identical ids, shifted, swapped terminals, disjoint *)
Relabelings == {"same", "shift", "swap", "far"}
RelabelBy(H, r) ==
    IF r = "same" THEN H
    ELSE IF r = "shift" THEN Relabel(H, LAMBDA n : n + 1, LAMBDA e : e + 1)
    ELSE IF r = "swap" THEN Relabel(H, LAMBDA n : IF n = 0 THEN 1 ELSE IF n = 1 THEN 0 ELSE n, LAMBDA e : e)
    ELSE Relabel(H, LAMBDA n : n + 40, LAMBDA e : e + 40)

(* the actions proper: one per public rewrite, parametrised by the arguments of the call.  The model's Next    *)
(* quantifies over the arguments; the trace specification binds them to the logged ones.                      *)
MergeAct(e1, e2, dir) ==
    /\ CanMerge(G, e1, e2, dir)
    /\ G' = MergeEdges(G, e1, e2, dir)
    /\ UNCHANGED den0

SimplifyMergeAct(e1, e2, dir) ==          \* one merge done by _simplify_step(dir)
    /\ Mergeable(G, e1, e2, dir)
    /\ MergeAct(e1, e2, dir)

RenameNodeAct(a, b) ==
    /\ a \in NodeIds(G) /\ b \notin NodeIds(G)
    /\ G' = RenameNode(G, a, b)
    /\ UNCHANGED den0

RenameEdgeAct(a, b) ==
    /\ a \in EdgeIds(G) /\ b \notin EdgeIds(G)
    /\ G' = RenameEdge(G, a, b)
    /\ UNCHANGED den0

FlipAct == G' = FlipGraph(G) /\ den0' = PolyReverse(den0)

AddUnionOrdAct(H, ordN, ordE) ==          \* add() up to (excluding) its final simplify()
    /\ CanAdd(G, H)
    /\ IsEnumOf(ordN, SharedNodes(G, H)) /\ IsEnumOf(ordE, SharedEdges(G, H))
    /\ G' = AddUnionOrd(G, H, ordN, ordE)
    /\ den0' = PolyAdd(den0, Den(H))

AddUnionAct(H) == AddUnionOrdAct(H, SortedSeqOf(SharedNodes(G, H)), SortedSeqOf(SharedEdges(G, H)))

SimplifyStep(dir) ==
    /\ Running
    /\ \E p \in MergeablePairs(G, dir) :
          SimplifyMergeAct(p[1], p[2], dir) /\ last' = [op |-> "merge", e1 |-> p[1], e2 |-> p[2], dir |-> dir]
    /\ UNCHANGED nops

DoRenameNode ==
    /\ OpPoint
    /\ \E a \in NodeIds(G), b \in {Max(NodeIds(G)) + 1, 77} :
          RenameNodeAct(a, b) /\ last' = [op |-> "rename_node", a |-> a, b |-> b]
    /\ nops' = nops + 1

DoRenameEdge ==
    /\ OpPoint /\ EdgeIds(G) # {}
    /\ \E a \in EdgeIds(G), b \in {Max(EdgeIds(G)) + 1, 78} :
          RenameEdgeAct(a, b) /\ last' = [op |-> "rename_edge", a |-> a, b |-> b]
    /\ nops' = nops + 1

DoFlip ==
    /\ OpPoint
    /\ FlipAct
    /\ nops' = nops + 1 /\ last' = [op |-> "flip"]

DoAdd ==
    /\ OpPoint /\ MaxTerms2 > 0
    /\ \E ts \in {x \in TermSeqs(MaxTerms2) : Sorted(x) /\ \A i \in DOMAIN x : x[i].c \in COEFS2}, r \in RELABELS :
          LET H == RelabelBy(TermGraph(L, ts), r)
          IN AddUnionAct(H) /\ last' = [op |-> "add", h |-> H]
    /\ nops' = nops + 1

Next == (\E t \in Term : Build(t)) \/ Start \/ SimplifyStep(0) \/ SimplifyStep(1) \/ DoRenameNode \/ DoRenameEdge \/ DoFlip \/ DoAdd

Spec == Init /\ [][Next]_vars

----------------------------------------------------------------------------
(* C16 *)
DenOK == Den(G) = den0                        \* the denoted operator follows the contract of every rewrite
DenTwoWays == DenBackward(G) = Den(G)         \* two independent formulations of the meaning agree
ConsistentOK == (Running \/ Len(last.terms) > 0) => (ConsistentG(G) /\ UniqueOids(G))
LengthOK == (Running \/ Len(last.terms) > 0) => GraphLength(G) = L

(* simplification never increases the number of nodes or edges nor any layer width, and terminates: *)
(* every merge removes exactly one edge *)
MergeShrinks ==
    [][last'.op = "merge" =>
          /\ NumEdges(G') = NumEdges(G) - 1
          /\ NumNodes(G') <= NumNodes(G)
          /\ \A lev \in 0..L : Width(G', lev) <= Width(G, lev)]_vars

(* renames do not change the shape *)
RenameKeepsShape ==
    [][last'.op \in {"rename_node", "rename_edge"} => (NumEdges(G') = NumEdges(G) /\ NumNodes(G') = NumNodes(G))]_vars
=============================================================================
