------------------------------ MODULE TraceHeap ------------------------------
(* C19: operands are never modified and results share no state with them.     *)
(* One trace = one history (harness/histgen.py).  For every public call the   *)
(* harness digests all live objects before and after and computes which pairs *)
(* of objects share memory; after every fresh result it perturbs each buffer  *)
(* of the result in place (and calls zero_qnumbers) and re-digests all other  *)
(* objects.  The records are validated against the actions of Heap.tla:       *)
(*   call  kind in {pure, fresh, inplace}, target, created, changed, sharing  *)
(*   poke  obj, changed_others                                                *)
EXTENDS Integers, Sequences, FiniteSets, TLC, Json, IOUtils

Data == JsonDeserialize(IOEnv.TRACE_FILE)
Tr == Data.traces
VARIABLES tid, l, live
tvars == <<tid, l, live>>
Rec == Tr[tid][l]
HasRec == tid <= Len(Tr) /\ l <= Len(Tr[tid])
TraceInit == tid = 1 /\ l = 1 /\ live = {}
ToSetS(s) == {s[i] : i \in DOMAIN s}

(* Heap!Pure / Heap!Fresh / Heap!InPlace with the Frozen and NoSharing clauses *)
CallOK ==
    /\ Rec.sharing = <<>>                                                  \* NoSharing
    /\ ToSetS(Rec.operands) \subseteq live
    /\ IF Rec.kind = "pure" THEN Rec.changed = <<>> /\ Rec.created = 0
       ELSE IF Rec.kind = "fresh" THEN Rec.changed = <<>> /\ Rec.created \notin live /\ Rec.created # 0
       ELSE Rec.target \in live /\ ToSetS(Rec.changed) \subseteq {Rec.target} /\ Rec.created = 0      \* Frozen
PokeOK == Rec.obj \in live /\ Rec.changed_others = <<>>

TCall == /\ HasRec /\ Rec.ev = "call" /\ (CallOK = TRUE)
         /\ live' = IF Rec.kind = "fresh" THEN live \cup {Rec.created} ELSE live
         /\ l' = l + 1 /\ tid' = tid
TPoke == /\ HasRec /\ Rec.ev = "poke" /\ (PokeOK = TRUE)
         /\ UNCHANGED live /\ l' = l + 1 /\ tid' = tid
TNextTrace == /\ tid <= Len(Tr) /\ l > Len(Tr[tid])
              /\ TLCSet(1, TLCGet(1) \cup {tid})
              /\ tid' = tid + 1 /\ l' = 1 /\ live' = {}
Diagnose ==
    IF Rec.ev = "raise" THEN "exception: " \o Rec.op \o ": " \o Rec.exc
    ELSE IF Rec.ev = "poke" THEN "an in-place change of the result of the previous call altered another object (shared mutable state)"
    ELSE IF Rec.sharing # <<>> THEN "after " \o Rec.name \o ": two distinct objects share memory"
    ELSE IF Rec.kind = "inplace" THEN "in-place algorithm " \o Rec.name \o " modified an object other than its documented target"
    ELSE Rec.name \o " modified one of its arguments"
TReject == /\ HasRec /\ ~ENABLED (TCall \/ TPoke)
           /\ PrintT(<<"REJECT", tid, l, Rec.ev, Diagnose>>)
           /\ tid' = tid + 1 /\ l' = 1 /\ live' = {}
TraceNext == TCall \/ TPoke \/ TNextTrace \/ TReject
TraceSpec == TraceInit /\ [][TraceNext]_tvars
ASSUME TLCSet(1, {})
TraceDone == PrintT(<<"DONE", TLCGet(1)>>) /\ TLCGet("stats").diameter >= 1
=============================================================================
