----------------------------- MODULE TraceCanon -----------------------------
(* Trace validation of MPS/MPO.orthonormalize, MPS.compress and               *)
(* MPS.from_vector (harness/props/c01.py, c13.py) against the sweep of        *)
(* Canon.tla: one record per local factorization (wrappers on                 *)
(* local_orthonormalize_{left,right}_{qr,svd}), framed by begin / end.        *)
(*   begin  cls op mode L phys qD tn td                                       *)
(*   step   kind dir site qbond  iso_ok sparse_ok pair_ok                     *)
(*   end    qD  zero  + result clauses (flags, mode N) + exact fields         *)
(* The state mirrors Canon.tla (qD, pos, pc, zero); the new bond charges of a *)
(* step must be a sub-multiset of the block-wise prediction (BondOpsPure).    *)
EXTENDS BondOpsPure, Ring, TLC, Json, IOUtils

(* Two levels (harness/parallel.py): Strict demands the sweep of Canon.tla (one local factorization per site in order, bond   *)
(* charges given by the closed forms, fixed point of a repeated sweep, no bond growth for orthonormalize); the properties   *)
(* C01 / C13 / C02 are the result clauses of TEnd.  With Strict = FALSE the step events are removed by the harness and the  *)
(* end record is marked hooks_missing.  Diagnostics of strict-only clauses start with "spec: ".                            *)
Data == JsonDeserialize(IOEnv.TRACE_FILE)
Tr == Data.traces
Strict == IF "strict" \in DOMAIN Data THEN Data.strict ELSE TRUE
VARIABLES tid, l, qD, pos, pc, zero, meta, nsteps
tvars == <<tid, l, qD, pos, pc, zero, meta, nsteps>>
Rec == Tr[tid][l]
HasRec == tid <= Len(Tr) /\ l <= Len(Tr[tid])
Advance == l' = l + 1 /\ tid' = tid
NoMeta == [L |-> 0, op |-> "", mode |-> "", phys |-> <<>>, cls |-> "", qD0 |-> <<>>, pmode |-> ""]
Blank == qD' = <<>> /\ pos' = 0 /\ pc' = "none" /\ zero' = FALSE /\ meta' = NoMeta /\ nsteps' = 0
TraceInit == tid = 1 /\ l = 1 /\ qD = <<>> /\ pos = 0 /\ pc = "none" /\ zero = FALSE /\ meta = NoMeta /\ nsteps = 0

Flat(a, b) == [k \in 1..(Len(a) * Len(b)) |-> a[((k - 1) \div Len(b)) + 1] + b[((k - 1) % Len(b)) + 1]]
Neg(a) == [k \in DOMAIN a |-> -a[k]]
(* bonds are stored 1-based: bond b (0..L) is qD[b + 1] *)
Bond(b) == qD[b + 1]

(* the model keeps one canonical (sorted) representative per bond: its fixed point is one of charge multisets *)
SameBags(a, b) == /\ Len(a) = Len(b)
                  /\ \A k \in DOMAIN a : Len(a[k]) = Len(b[k]) /\ \A x \in Range(a[k]) : CountOf(a[k], x) = CountOf(b[k], x)
(* A trace is a history of calls on one object: a later call starts from the charges the previous one left behind;  *)
(* between two calls the user may overwrite site tensors (event "poke"), which changes no charge.                   *)
TBegin == /\ HasRec /\ Rec.ev = "begin" /\ pc \in {"none", "done"}
          /\ Len(Rec.qD) = Rec.L + 1 /\ Rec.L >= 1
          /\ (pc = "done" /\ meta.L > 0) => (Rec.qD = qD /\ Rec.L = meta.L /\ Rec.cls = meta.cls /\ Rec.phys = meta.phys)
          /\ meta' = [L |-> Rec.L, op |-> Rec.op, mode |-> Rec.mode, phys |-> Rec.phys, cls |-> Rec.cls, qD0 |-> Rec.qD,
                     pmode |-> IF pc = "done" /\ meta.L > 0 THEN meta.mode ELSE ""]      \* direction of the previous call's final sweep
          /\ qD' = Rec.qD
          /\ pc' = IF Rec.op = "ortho" THEN "sweep" ELSE "pre"
          /\ pos' = IF (Rec.op = "ortho") = (Rec.mode = "left") THEN 1 ELSE Rec.L     \* Canon!Start
          /\ zero' = FALSE /\ nsteps' = 0 /\ Advance

SweepDir == IF pc = "pre" THEN (IF meta.mode = "left" THEN "right" ELSE "left") ELSE meta.mode
Q0(i, dir) == IF dir = "left" THEN Flat(meta.phys, Bond(i - 1)) ELSE Flat(meta.phys, Neg(Bond(i)))
Q1(i, dir) == IF dir = "left" THEN Bond(i) ELSE Neg(Bond(i - 1))

(* Canon!LocalStep bound to the logged local factorization *)
TStep == /\ HasRec /\ Rec.ev = "step" /\ pc \in {"sweep", "pre"}
         /\ Rec.site = pos /\ Rec.dir = SweepDir
         /\ Rec.kind = (IF pc = "sweep" /\ meta.op = "compress" THEN "svd" ELSE "qr")
         /\ LET dir == SweepDir
                b   == IF dir = "left" THEN Rec.qbond ELSE Neg(Rec.qbond)      \* charges as returned by the factorization
                q0  == Q0(pos, dir)
                q1  == Q1(pos, dir)
            IN /\ Len(b) >= 1
               /\ IF CommonOf(q0, q1) = {} /\ Rec.kind = "svd"
                  THEN Len(b) = 1       \* dummy bond of the SVD: the charge convention of the right sweep differs from the QR's
                  ELSE \A x \in Range(b) : CountOf(b, x) <= PredCount(q0, q1, x)
               /\ Rec.kind = "qr" => Len(b) = PredD(q0, q1)
               /\ zero' = (zero \/ CommonOf(q0, q1) = {})
               /\ qD' = IF dir = "left" THEN [qD EXCEPT ![pos + 1] = Rec.qbond] ELSE [qD EXCEPT ![pos] = Rec.qbond]
               /\ LET nxt == IF dir = "left" THEN pos + 1 ELSE pos - 1
                  IN IF nxt \in 1..meta.L THEN pos' = nxt /\ pc' = pc
                     ELSE IF pc = "pre" THEN pc' = "sweep" /\ pos' = (IF meta.mode = "left" THEN 1 ELSE meta.L)
                     ELSE pc' = "swept" /\ pos' = pos
         /\ Rec.iso_ok /\ Rec.sparse_ok /\ Rec.pair_ok
         /\ nsteps' = nsteps + 1 /\ meta' = meta /\ Advance

ExactOK ==
    Rec.exact =>
        /\ ISum(Len(Rec.v_old), LAMBDA k : GAbs2(<<Rec.v_old[k][1], Rec.v_old[k][2]>>)) = Rec.nrm2      \* nrm^2 = ||v||^2
        /\ \A k \in DOMAIN Rec.v_old : <<Rec.v_new_scaled[k][1], Rec.v_new_scaled[k][2]>> = <<Rec.v_old[k][1], Rec.v_old[k][2]>>

TEnd == /\ HasRec /\ Rec.ev = "end" /\ pc \in {"swept", "sweep", "pre"}
        /\ (pc \in {"sweep", "pre"} => Rec.hooks_missing /\ nsteps = 0)          \* without hooks only the result clauses are checked
        /\ pc = "swept" => Rec.qD = qD                                  \* the object's charges are those of the local steps
        /\ Len(Rec.qD) = meta.L + 1
        /\ Strict => \A b \in 1..(meta.L + 1) : Len(Rec.qD[b]) = Rec.dims[b]                                \* C02: list lengths
        /\ (Strict \/ meta.op = "compress") => \A b \in 1..(meta.L + 1) : Rec.dims[b] <= Len(meta.qD0[b])     \* NoGrowth (C13 for compress)
        /\ Rec.dims[1] = 1 /\ Rec.dims[meta.L + 1] = 1
        /\ (Strict /\ meta.op = "ortho" /\ meta.pmode = meta.mode) => SameBags(Rec.qD, meta.qD0)                          \* Canon!Idempotent
        /\ (Strict /\ ~Rec.is_zero) => (Rec.qD[1] = meta.qD0[1] /\ Rec.qD[meta.L + 1] = meta.qD0[meta.L + 1])    \* BoundaryOK (C02)
        /\ (pc = "swept" /\ zero) => Rec.is_zero                                                        \* dummy branch => zero state
        /\ Rec.nrm_nonneg /\ Rec.nrm_ok /\ Rec.state_ok /\ Rec.unit_ok /\ Rec.forms_ok
        /\ Strict => (Rec.sparse_ok /\ Rec.types_ok)                                                   \* C02
        /\ Rec.neighbour_ok
        /\ meta.op = "compress" => (Rec.scale_ok /\ Rec.err_ok)
        /\ ExactOK
        /\ pc' = "done" /\ qD' = Rec.qD /\ UNCHANGED <<pos, zero, meta, nsteps>> /\ Advance

(* C13: the first truncated bond keeps exactly the Schmidt values prescribed by the tolerance rule (exact instances) *)
TFirstBond == /\ HasRec /\ Rec.ev = "firstbond" /\ pc = "done"
              /\ KeepAllowed(Rec.ws, Rec.kept, Rec.tn, Rec.td)
              /\ UNCHANGED <<qD, pos, pc, zero, meta, nsteps>> /\ Advance

(* C13 / C03: MPS.from_vector *)
TFromVector == /\ HasRec /\ Rec.ev = "from_vector" /\ pc = "none"
               /\ Rec.err_ok /\ Rec.shapes_ok /\ Rec.exact_ok
               /\ Strict => (Rec.types_ok /\ Rec.input_unchanged)                  \* C02 / C19
               /\ pc' = "done" /\ UNCHANGED <<qD, pos, zero, meta, nsteps>> /\ Advance

TPoke == /\ HasRec /\ Rec.ev = "poke" /\ pc = "done" /\ meta.L > 0
         /\ Rec.site \in 1..meta.L
         /\ UNCHANGED <<qD, pos, pc, zero, meta, nsteps>> /\ Advance

TStep2 == TBegin \/ TStep \/ TEnd \/ TFirstBond \/ TFromVector \/ TPoke
TNextTrace == /\ tid <= Len(Tr) /\ l > Len(Tr[tid]) /\ pc = "done"
              /\ TLCSet(1, TLCGet(1) \cup {tid})
              /\ tid' = tid + 1 /\ l' = 1 /\ Blank

Diagnose ==
    IF Rec.ev = "raise" THEN Rec.exc
    ELSE IF Rec.ev = "step" THEN
        (IF Strict /\ (pc \notin {"sweep", "pre"}) THEN "spec: local factorization after the sweep was complete"
         ELSE IF Strict /\ (Rec.site # pos \/ Rec.dir # SweepDir) THEN "spec: sweep order: unexpected site or direction"
         ELSE IF Strict /\ (~(Rec.iso_ok /\ Rec.sparse_ok /\ Rec.pair_ok)) THEN "spec: local step: isometry / sparsity / two-site product flag false"
         ELSE IF Strict THEN "spec: new bond charges exceed the block-wise prediction (or differ from it for QR)" ELSE "a property clause of this event failed (no specific diagnostic)")
    ELSE IF Rec.ev = "end" THEN
        (IF Strict /\ (pc \in {"sweep", "pre"} /\ ~(Rec.hooks_missing /\ nsteps = 0)) THEN "spec: call returned before its sweep over the sites was complete"
         ELSE IF Strict /\ (pc = "swept" /\ Rec.qD # qD) THEN "spec: bond charges of the object differ from those of the local factorizations"
         ELSE IF Strict /\ (~(\A b \in 1..(meta.L + 1) : Len(Rec.qD[b]) = Rec.dims[b])) THEN "spec: (clause of C02) length of a charge list differs from the bond dimension"
         ELSE IF (Strict \/ meta.op = "compress") /\ ~(\A b \in 1..(meta.L + 1) : Rec.dims[b] <= Len(meta.qD0[b])) THEN (IF meta.op = "compress" THEN "a bond dimension grew" ELSE "spec: a bond dimension grew")
         ELSE IF Strict /\ (meta.op = "ortho" /\ meta.pmode = meta.mode /\ ~SameBags(Rec.qD, meta.qD0)) THEN "spec: repeated sweep in the same direction changed the bond charges (not a fixed point)"
         ELSE IF Strict /\ (~Rec.is_zero /\ ~(Rec.qD[1] = meta.qD0[1] /\ Rec.qD[meta.L + 1] = meta.qD0[meta.L + 1])) THEN "spec: (clause of C02) total charge of a non-zero state changed"
         ELSE IF ~Rec.nrm_nonneg THEN "returned factor negative"
         ELSE IF ~Rec.nrm_ok THEN "returned factor is not the norm of the original"
         ELSE IF ~Rec.state_ok THEN "factor * new state differs from the original state"
         ELSE IF ~Rec.unit_ok THEN "result does not have unit norm"
         ELSE IF ~Rec.forms_ok THEN "a site tensor is not an isometry in the chosen direction"
         ELSE IF Strict /\ (~Rec.sparse_ok) THEN "spec: (clause of C02) a tensor is not block sparse under the final charges"
         ELSE IF ~Rec.neighbour_ok THEN "a bond is larger than the neighbouring dimensions allow"
         ELSE IF Strict /\ (~Rec.types_ok) THEN "spec: (clause of C02) container / dtype clause"
         ELSE IF meta.op = "compress" /\ ~(Rec.scale_ok /\ Rec.err_ok) THEN "compress: scale outside [sqrt(1-L tol), 1] or error identity violated"
         ELSE IF ~ExactOK THEN "exact instance: nrm^2 # ||v||^2 or nrm * new # old"
         ELSE IF Strict THEN "spec: zero-state bookkeeping" ELSE "a property clause of this event failed (no specific diagnostic)")
    ELSE IF Rec.ev = "begin" THEN "a later call does not start from the charges / shape the previous call left behind"
    ELSE IF Rec.ev = "firstbond" THEN "first truncated bond does not keep the Schmidt values prescribed by the tolerance rule"
    ELSE IF Rec.ev = "from_vector" THEN
        (IF ~(Rec.err_ok /\ Rec.shapes_ok /\ Rec.exact_ok) THEN "from_vector: error bound / shapes / exactness at tol = 0"
         ELSE IF Strict THEN "spec: (clause of C02 / C19) from_vector: container types of the charge lists / input vector modified" ELSE "a property clause of this event failed (no specific diagnostic)")
    ELSE "unexpected event"

TReject == /\ tid <= Len(Tr)
           /\ \/ (HasRec /\ ~ENABLED TStep2)
              \/ (l > Len(Tr[tid]) /\ pc # "done")
           /\ PrintT(<<"REJECT", tid, l, IF HasRec THEN Rec.ev ELSE "eot", IF HasRec THEN Diagnose ELSE "trace ended early">>)
           /\ tid' = tid + 1 /\ l' = 1 /\ Blank
TraceNext == TStep2 \/ TNextTrace \/ TReject
TraceSpec == TraceInit /\ [][TraceNext]_tvars
ASSUME TLCSet(1, {})
TraceDone == PrintT(<<"DONE", TLCGet(1)>>) /\ TLCGet("stats").diameter >= 1
=============================================================================
