---------------------------- MODULE TraceOpGraph ----------------------------
(* Trace validation of real OpGraph rewrites (harness/props/c16.py) against *)
(* the rewrite operators of OpGraph.tla.  Each record carries the arguments *)
(* of the call and the complete graph after it; the model computes its own  *)
(* post-state with the operators of OpGraph.tla and demands equality, keeps *)
(* the contract polynomial den0, and re-evaluates Den / ConsistentG on the  *)
(* real post-state.                                                         *)
(*   init          g                                                        *)
(*   merge         e1 e2 dir g          direct call of merge_edges          *)
(*   simplify_begin / smerge e1 e2 dir g / simplify_end g                   *)
(*   rename_node a b g, rename_edge a b g, flip g                           *)
(*   add_begin h / add_union g / smerge ... / add_end g h_after             *)
(*   raise op args   (accepted iff the model's guard of that call is false) *)
(* every record also has  cons : the value of the code's is_consistent()    *)
EXTENDS OpGraph, Json, IOUtils

Data == JsonDeserialize(IOEnv.TRACE_FILE)
Tr == Data.traces
(* Two levels (harness/parallel.py).  Strict: the post-state of every rewrite equals the post-state computed by the operators   *)
(* of OpGraph.tla (same ids, same merge, same renaming order), simplify merges only mergeable pairs and stops at a fixed       *)
(* point.  C16 itself demands less: the denoted operator follows the contract of the call (unchanged / sum / reversed), the     *)
(* graph passes its consistency check, simplification does not grow, the other graph of an addition is untouched.  With         *)
(* Strict = FALSE (pass 2) the internal events (smerge, add_union, depths) are removed by the harness and the actions below      *)
(* take the logged graph as the new state and evaluate only those clauses.  Strict-only diagnostics start with "spec: ".        *)
Strict == IF "strict" \in DOMAIN Data THEN Data.strict ELSE TRUE

VARIABLES tid, l, H, mode
tvars == <<tid, l, G, den0, nops, last, H, mode>>

NoGraph == [nodes |-> <<>>, edges |-> <<>>, term |-> <<0, 0>>]
Rec == Tr[tid][l]
HasRec == tid <= Len(Tr) /\ l <= Len(Tr[tid])
Advance == l' = l + 1 /\ tid' = tid /\ UNCHANGED <<nops, last>>
Blank == G' = NoGraph /\ den0' = {} /\ H' = NoGraph /\ mode' = "none" /\ UNCHANGED <<nops, last>>

TraceInit == tid = 1 /\ l = 1 /\ G = NoGraph /\ den0 = {} /\ H = NoGraph /\ mode = "none" /\ nops = 0 /\ last = [op |-> "trace"]

(* the logged graph is well formed as data, equals the model's graph, and the code's own checker agrees with ours *)
Logged == GraphOfJson(Rec.g)
LoggedOK(expected) ==
    /\ JsonIdsUnique(Rec.g)
    /\ Logged = expected
    /\ Rec.cons = (JsonListsOK(Rec.g) /\ ConsistentG(Logged))

TInit == /\ HasRec /\ Rec.ev = "init" /\ mode = "none"
         /\ JsonIdsUnique(Rec.g)
         /\ G' = Logged
         /\ Rec.cons = (JsonListsOK(Rec.g) /\ ConsistentG(Logged))
         /\ Rec.cons      \* drivers only start from consistent graphs
         /\ den0' = Den(Logged)
         /\ DenBackward(Logged) = Den(Logged)
         /\ H' = NoGraph /\ mode' = "idle"
         /\ Advance

TMerge == /\ Strict /\ HasRec /\ Rec.ev = "merge" /\ mode = "idle"
          /\ MergeAct(Rec.e1, Rec.e2, Rec.dir)
          /\ LoggedOK(G')
          /\ Den(G') = den0'
          /\ UNCHANGED <<H, mode>> /\ Advance

TSimplifyBegin == /\ HasRec /\ Rec.ev = "simplify_begin" /\ mode = "idle"
                  /\ mode' = "simplify" /\ UNCHANGED <<G, den0, H>> /\ Advance

(* one merge performed by _simplify_step: must be one of the pairs the scan may pick *)
TSMerge == /\ Strict /\ HasRec /\ Rec.ev = "smerge" /\ mode \in {"simplify", "addsimplify"}
           /\ SimplifyMergeAct(Rec.e1, Rec.e2, Rec.dir)
           /\ LoggedOK(G')
           /\ Den(G') = den0'
           /\ NumEdges(G') = NumEdges(G) - 1 /\ NumNodes(G') <= NumNodes(G)
           /\ \A lev \in 0..GraphLength(G) : Width(G', lev) <= Width(G, lev)
           /\ UNCHANGED <<H, mode>> /\ Advance

TSimplifyEnd == /\ Strict /\ HasRec /\ Rec.ev = "simplify_end" /\ mode = "simplify"
                /\ Simplified(G)              \* fixed point: no mergeable pair in either direction
                /\ LoggedOK(G)
                /\ mode' = "idle" /\ UNCHANGED <<G, den0, H>> /\ Advance

TRenameNode == /\ Strict /\ HasRec /\ Rec.ev = "rename_node" /\ mode = "idle"
               /\ RenameNodeAct(Rec.a, Rec.b)
               /\ LoggedOK(G') /\ Den(G') = den0'
               /\ UNCHANGED <<H, mode>> /\ Advance

TRenameEdge == /\ Strict /\ HasRec /\ Rec.ev = "rename_edge" /\ mode = "idle"
               /\ RenameEdgeAct(Rec.a, Rec.b)
               /\ LoggedOK(G') /\ Den(G') = den0'
               /\ UNCHANGED <<H, mode>> /\ Advance

TFlip == /\ Strict /\ HasRec /\ Rec.ev = "flip" /\ mode = "idle"
         /\ FlipAct
         /\ LoggedOK(G')
         /\ Den(G') = den0'
         /\ UNCHANGED <<H, mode>> /\ Advance

TInsert == /\ Strict /\ HasRec /\ Rec.ev = "insert_chain" /\ mode = "idle"
           /\ InsertChainAct(Rec.a, Rec.b, Rec.oids, Rec.coeffs, Rec.qs, Rec.dir)
           /\ LoggedOK(G')
           /\ Den(G') = den0'
           /\ UNCHANGED <<H, mode>> /\ Advance

(* node_depth(nid, direction) and length: distance to the terminal node in that direction = level from the other end *)
TDepths == /\ Strict /\ HasRec /\ Rec.ev = "depths" /\ mode = "idle"
           /\ Rec.length = GraphLength(G)
           /\ \A k \in DOMAIN Rec.depths :
                 LET n == Rec.depths[k][1]
                 IN /\ n \in NodeIds(G)
                    /\ Rec.depths[k][2] = LevelOf(G, n)                           \* direction 0: distance to the start node
                    /\ Rec.depths[k][3] = GraphLength(G) - LevelOf(G, n)          \* direction 1: distance to the end node
           /\ UNCHANGED <<G, den0, H, mode>> /\ Advance

TAddBegin == /\ HasRec /\ Rec.ev = "add_begin" /\ mode = "idle"
             /\ JsonIdsUnique(Rec.h)
             /\ H' = GraphOfJson(Rec.h)
             /\ CanAdd(G, H')
             /\ mode' = "add" /\ UNCHANGED <<G, den0>> /\ Advance

TAddUnion == /\ Strict /\ HasRec /\ Rec.ev = "add_union" /\ mode = "add"
             /\ AddUnionOrdAct(H, Rec.ordn, Rec.orde)
             /\ LoggedOK(G')
             /\ Den(G') = den0'
             /\ mode' = "addsimplify" /\ UNCHANGED H /\ Advance

TAddEnd == /\ Strict /\ HasRec /\ Rec.ev = "add_end" /\ mode = "addsimplify"
           /\ Simplified(G)
           /\ LoggedOK(G)
           /\ JsonIdsUnique(Rec.h_after) /\ GraphOfJson(Rec.h_after) = H     \* the other graph is untouched
           /\ Rec.h_cons
           /\ mode' = "idle" /\ H' = NoGraph /\ UNCHANGED <<G, den0>> /\ Advance

(* an exception is accepted exactly when the model's guard for that call fails; the graph must be unchanged *)
GuardOf ==
    IF Rec.op = "rename_node" THEN Rec.a \in NodeIds(G) /\ Rec.b \notin NodeIds(G)
    ELSE IF Rec.op = "rename_edge" THEN Rec.a \in EdgeIds(G) /\ Rec.b \notin EdgeIds(G)
    ELSE IF Rec.op = "merge" THEN Rec.dir \in {0, 1}
    ELSE TRUE
TRaise == /\ HasRec /\ Rec.ev = "raise" /\ mode = "idle"
          /\ ~GuardOf
          /\ LoggedOK(G)
          /\ UNCHANGED <<G, den0, H, mode>> /\ Advance

(* ---------------------------------------------------------------- pass 2: the clauses of C16 on the logged graphs *)
PropOK(expectedDen) == /\ JsonIdsUnique(Rec.g) /\ JsonListsOK(Rec.g) /\ ConsistentG(Logged) /\ Rec.cons
                       /\ Den(Logged) = expectedDen
NoGrowth(before) == NumEdges(Logged) <= NumEdges(before) /\ NumNodes(Logged) <= NumNodes(before)
RSame == /\ ~Strict /\ HasRec /\ Rec.ev \in {"merge", "rename_node", "rename_edge"} /\ mode = "idle"
         /\ PropOK(den0) /\ G' = Logged /\ UNCHANGED <<den0, H, mode>> /\ Advance
RSimplifyEnd == /\ ~Strict /\ HasRec /\ Rec.ev = "simplify_end" /\ mode = "simplify"
                /\ PropOK(den0) /\ NoGrowth(G)
                /\ G' = Logged /\ mode' = "idle" /\ UNCHANGED <<den0, H>> /\ Advance
RFlip == /\ ~Strict /\ HasRec /\ Rec.ev = "flip" /\ mode = "idle"
         /\ PropOK(PolyReverse(den0)) /\ G' = Logged /\ den0' = PolyReverse(den0) /\ UNCHANGED <<H, mode>> /\ Advance
RInsert == /\ ~Strict /\ HasRec /\ Rec.ev = "insert_chain" /\ mode = "idle"          \* private helper: no contract in C16
           /\ JsonIdsUnique(Rec.g) /\ G' = Logged /\ den0' = Den(Logged) /\ UNCHANGED <<H, mode>> /\ Advance
RAddEnd == /\ ~Strict /\ HasRec /\ Rec.ev = "add_end" /\ mode = "add"
           /\ PropOK(PolyAdd(den0, Den(H)))
           /\ JsonIdsUnique(Rec.h_after) /\ GraphOfJson(Rec.h_after) = H /\ Rec.h_cons      \* the other graph is untouched
           /\ G' = Logged /\ den0' = PolyAdd(den0, Den(H)) /\ mode' = "idle" /\ H' = NoGraph /\ Advance
RStep == RSame \/ RSimplifyEnd \/ RFlip \/ RInsert \/ RAddEnd

TStep == RStep \/ TInsert \/ TDepths \/ TInit \/ TMerge \/ TSimplifyBegin \/ TSMerge \/ TSimplifyEnd \/ TRenameNode \/ TRenameEdge \/ TFlip
         \/ TAddBegin \/ TAddUnion \/ TAddEnd \/ TRaise

TNextTrace == /\ tid <= Len(Tr) /\ l > Len(Tr[tid]) /\ mode = "idle"
              /\ TLCSet(1, TLCGet(1) \cup {tid})
              /\ tid' = tid + 1 /\ l' = 1 /\ Blank

Diagnose ==
    IF "g" \in DOMAIN Rec /\ ~JsonIdsUnique(Rec.g) THEN "duplicate ids in logged graph"
    ELSE IF ~Strict /\ "g" \in DOMAIN Rec /\ Rec.ev \in {"merge", "rename_node", "rename_edge", "simplify_end", "flip", "add_end"} THEN
        (LET want == IF Rec.ev = "flip" THEN PolyReverse(den0) ELSE IF Rec.ev = "add_end" THEN PolyAdd(den0, Den(H)) ELSE den0
         IN IF ~(JsonListsOK(Rec.g) /\ ConsistentG(Logged)) THEN "graph fails the consistency check after " \o Rec.ev
            ELSE IF ~Rec.cons THEN "is_consistent() false on a consistent graph after " \o Rec.ev
            ELSE IF Den(Logged) # want THEN "denoted operator after " \o Rec.ev \o " differs from its contract (unchanged / sum / reversed)"
            ELSE IF Rec.ev = "add_end" THEN "add modified the other graph"
            ELSE IF Rec.ev = "simplify_end" THEN "simplification increased the number of nodes or edges"
            ELSE "operation not allowed here")
    ELSE IF Rec.ev \in {"merge", "smerge"} THEN
        (IF Strict /\ (~(Rec.e1 \in EdgeIds(G) /\ Rec.e2 \in EdgeIds(G))) THEN "spec: merge of unknown edges"
         ELSE IF Strict /\ (Rec.ev = "smerge" /\ ~Mergeable(G, Rec.e1, Rec.e2, Rec.dir)) THEN "spec: simplify merged a pair that is not mergeable (different operators / charges / shared node)"
         ELSE IF Strict /\ (Rec.ev = "merge" /\ ~CanMerge(G, Rec.e1, Rec.e2, Rec.dir)) THEN "spec: merge_edges accepted a pair violating its guards"
         ELSE IF Strict /\ (Logged # MergeEdges(G, Rec.e1, Rec.e2, Rec.dir)) THEN "spec: post-state differs from MergeEdges"
         ELSE IF Den(Logged) # den0 THEN "merge changed the denoted operator"
         ELSE "is_consistent disagrees or size/width grew")
    ELSE IF Rec.ev \in {"simplify_end", "add_end"} THEN
        (IF Strict /\ (~Simplified(G)) THEN "spec: simplify stopped although a mergeable pair is left"
         ELSE IF Rec.ev = "add_end" /\ GraphOfJson(Rec.h_after) # H THEN "add modified the other graph"
         ELSE IF Strict THEN "spec: final graph differs from model or is_consistent disagrees" ELSE "a property clause of this event failed (no specific diagnostic)")
    ELSE IF Rec.ev = "add_union" THEN
        (IF Strict /\ (~(IsEnumOf(Rec.ordn, SharedNodes(G, H)) /\ IsEnumOf(Rec.orde, SharedEdges(G, H)))) THEN "spec: add did not rename exactly the shared ids"
         ELSE IF Strict /\ (Logged # AddUnionOrd(G, H, Rec.ordn, Rec.orde)) THEN "spec: union step of add differs from AddUnion"
         ELSE IF Den(Logged) # PolyAdd(den0, Den(H)) THEN "add does not denote the sum"
         ELSE "is_consistent disagrees")
    ELSE IF Rec.ev = "flip" THEN (IF Strict /\ (Logged # FlipGraph(G)) THEN "spec: flip post-state differs" ELSE "flip does not reverse the words")
    ELSE IF Strict /\ (Rec.ev \in {"rename_node", "rename_edge"}) THEN "spec: rename post-state differs or guard violated"
    ELSE IF Rec.ev = "raise" THEN "exception although the guard of the call holds"
    ELSE IF Strict /\ (Rec.ev = "insert_chain") THEN "spec: _insert_opchain: post-state or denoted operator differs"
    ELSE IF Strict /\ (Rec.ev = "depths") THEN "spec: node_depth / length differ from the levels of the graph"
    ELSE IF Rec.ev = "init" THEN "initial graph inconsistent"
    ELSE "unexpected event"

TReject == /\ tid <= Len(Tr)
           /\ \/ (HasRec /\ ~ENABLED TStep)
              \/ (l > Len(Tr[tid]) /\ mode # "idle")
           /\ PrintT(<<"REJECT", tid, l, IF HasRec THEN Rec.ev ELSE "eot", IF HasRec THEN Diagnose ELSE "trace ended inside an operation">>)
           /\ tid' = tid + 1 /\ l' = 1 /\ Blank

TraceNext == TStep \/ TNextTrace \/ TReject
TraceSpec == TraceInit /\ [][TraceNext]_tvars

ASSUME TLCSet(1, {})
TraceDone == PrintT(<<"DONE", TLCGet(1)>>) /\ TLCGet("stats").diameter >= 1
=============================================================================
