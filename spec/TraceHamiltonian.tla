-------------------------- MODULE TraceHamiltonian --------------------------
(* Trace validation of the Hamiltonian constructors (harness/props/c06.py,   *)
(* c07.py): the MPO tensors the code returned (scaled / similarity           *)
(* transformed to Gaussian integers by the harness) are contracted by TLC    *)
(* and compared entry by entry with the textbook operator of Hamiltonian.tla *)
(* built from the logged PARAMETERS only.                                    *)
(*   model  name L d params T S ts qd qD                                     *)
(*   mol    kind n tk vi T S qd qD          (n small enough for TLC)         *)
(*   same   T1 T2 S1 S2                     two build paths, same operator   *)
(*   flag   what ok                         clauses decided by the harness   *)
(*                                          (exact integer numpy or mode N)  *)
(*   raise  exc                                                              *)
EXTENDS Hamiltonian, Json, IOUtils

Data == JsonDeserialize(IOEnv.TRACE_FILE)
Tr == Data.traces
Strict == IF "strict" \in DOMAIN Data THEN Data.strict ELSE TRUE
(* a flag whose record says `foreign` states a clause of another property (C02 sparsity of a constructor's tensors, C19 arguments *)
(* unchanged): strict-only in this check                                                                                         *)
VARIABLES tid, l
tvars == <<tid, l>>
Rec == Tr[tid][l]
IsForeign == "foreign" \in DOMAIN Rec /\ Rec.foreign
HasRec == tid <= Len(Tr) /\ l <= Len(Tr[tid])
TraceInit == tid = 1 /\ l = 1

G2(x) == <<x[1], x[2]>>
T4(J) == [s \in DOMAIN J |-> [t \in DOMAIN J[s] |-> [a \in DOMAIN J[s][t] |-> [b \in DOMAIN J[s][t][a] |-> G2(J[s][t][a][b])]]]]
MpoOf(J) == [i \in DOMAIN J |-> T4(J[i])]
P(k) == Rec.params[k]

Textbook ==
    IF Rec.model = "ising" THEN TermsMatrix(IsingTerms(Rec.L, P(1), P(2), P(3)), Rec.L, 2)
    ELSE IF Rec.model = "xxz" THEN TermsMatrix(XxzTerms(Rec.L, P(1), P(2), P(3)), Rec.L, 2)
    ELSE IF Rec.model = "xxz1" THEN TermsMatrix(Xxz1Terms(Rec.L, P(1), P(2), P(3)), Rec.L, 3)
    ELSE IF Rec.model = "bose" THEN TermsMatrix(BoseTerms(Rec.L, Rec.d, P(1), P(2), P(3)), Rec.L, Rec.d)
    ELSE IF Rec.model = "fermi_hubbard" THEN FermMatrix(FermiHubbardTerms(Rec.L, P(1), P(2), P(3)), 2 * Rec.L)
    ELSE IF Rec.model = "linferm_c" THEN FermMatrix(LinFermTerms([i \in DOMAIN Rec.f |-> G2(Rec.f[i])], "c"), Rec.L)
    ELSE FermMatrix(LinFermTerms([i \in DOMAIN Rec.f |-> G2(Rec.f[i])], "a"), Rec.L)

SameUpToScale(X, sx, Y, sy) ==     \* sx * X = sy * Y
    /\ Len(X) = Len(Y)
    /\ \A r \in DOMAIN X : \A c \in DOMAIN X : GScale(sx, X[r][c]) = GScale(sy, Y[r][c])

TensorsSparse(Ws, qd, qD) ==
    \A i \in DOMAIN Ws : \A s \in DOMAIN Ws[i] : \A t \in DOMAIN Ws[i][s] : \A a \in DOMAIN Ws[i][s][t] : \A b \in DOMAIN Ws[i][s][t][a] :
        IF GIsZero(Ws[i][s][t][a][b]) THEN TRUE ELSE qd[s] - qd[t] + qD[i][a] - qD[i + 1][b] = 0
ShapesOK(Ws, qd, qD) ==
    /\ Len(qD) = Len(Ws) + 1 /\ Len(qD[1]) = 1 /\ Len(qD[Len(qD)]) = 1
    /\ \A i \in DOMAIN Ws : /\ Len(Ws[i]) = Len(qd) /\ Len(Ws[i][1]) = Len(qd)
                            /\ Len(Ws[i][1][1]) = Len(qD[i]) /\ Len(Ws[i][1][1][1]) = Len(qD[i + 1])

T2(J) == [a \in DOMAIN J |-> [b \in DOMAIN J[a] |-> G2(J[a][b])]]
(* fallback when the tensors themselves are not on the integer lattice (e.g. a coupling split as sqrt(J) * sqrt(J) over two *)
(* tensors): the harness logs ts * dense matrix instead, sparsity is then a harness flag                                 *)
DenseModelOK ==
    LET H == Textbook
        M == T2(Rec.M)
        d == Len(Rec.qd)
    IN /\ SameUpToScale(M, 1, H, 1)
       /\ Rec.hermitian => IsHermitianUpTo(H, Rec.L, d, Rec.w2)
       /\ Rec.sparse_ok
       /\ ConservesM(M, Rec.L, d, Rec.qd, Rec.qD[Rec.L + 1][1] - Rec.qD[1][1])
ModelOK ==
    LET Ws == MpoOf(Rec.T)
        H == Textbook
        d == Len(Rec.qd)
    IN /\ Len(Ws) = Rec.L
       /\ ShapesOK(Ws, Rec.qd, Rec.qD)
       /\ SameUpToScale(Mat(Ws), Rec.ts, H, Rec.S)                          \* equals the textbook definition
       /\ Rec.hermitian => IsHermitianUpTo(H, Rec.L, d, Rec.w2)              \* Hermitian for real parameters
       /\ TensorsSparse(Ws, Rec.qd, Rec.qD)                                 \* block sparse under (qd, qD)
       /\ ConservesM(Mat(Ws), Rec.L, d, Rec.qd, Rec.qD[Rec.L + 1][1] - Rec.qD[1][1])   \* conserves / shifts the charge

MolTextbook ==
    LET tk == [i \in DOMAIN Rec.tk |-> [j \in DOMAIN Rec.tk[i] |-> G2(Rec.tk[i][j])]]
        vi == [i \in DOMAIN Rec.vi |-> [j \in DOMAIN Rec.vi[i] |-> [k \in DOMAIN Rec.vi[i][j] |-> [m \in DOMAIN Rec.vi[i][j][k] |-> G2(Rec.vi[i][j][k][m])]]]]
    IN IF Rec.kind = "mol" THEN FermMatrix(MolTerms(Rec.n, tk, vi), Rec.n)
       ELSE FermMatrix(SpinMolTerms(Rec.n, tk, vi), 2 * Rec.n)
MolOK ==
    LET Ws == MpoOf(Rec.T)
    IN /\ Len(Ws) = Rec.n
       /\ ShapesOK(Ws, Rec.qd, Rec.qD)
       /\ SameUpToScale(Mat(Ws), 2, MolTextbook, Rec.S)
       /\ TensorsSparse(Ws, Rec.qd, Rec.qD)
       /\ Rec.hermitian => IsHermitianM(MolTextbook)

SameOK == SameUpToScale(Mat(MpoOf(Rec.T1)), Rec.S2, Mat(MpoOf(Rec.T2)), Rec.S1)

CallOK == IF Rec.ev = "model" THEN ModelOK ELSE IF Rec.ev = "model_dense" THEN DenseModelOK ELSE IF Rec.ev = "mol" THEN MolOK ELSE IF Rec.ev = "same" THEN SameOK
          ELSE IF Rec.ev = "flag" THEN (Rec.ok \/ (~Strict /\ IsForeign)) ELSE FALSE
TCall == /\ HasRec /\ (CallOK = TRUE) /\ l' = l + 1 /\ tid' = tid
TNextTrace == /\ tid <= Len(Tr) /\ l > Len(Tr[tid])
              /\ TLCSet(1, TLCGet(1) \cup {tid})
              /\ tid' = tid + 1 /\ l' = 1
Diagnose ==
    IF Rec.ev = "raise" THEN "constructor raised inside its documented domain: " \o Rec.exc
    ELSE IF Rec.ev = "model" THEN
        (LET Ws == MpoOf(Rec.T) IN
         IF ~(Len(Ws) = Rec.L /\ ShapesOK(Ws, Rec.qd, Rec.qD)) THEN "shapes / charge lists inconsistent"
         ELSE IF ~SameUpToScale(Mat(Ws), Rec.ts, Textbook, Rec.S) THEN "dense matrix differs from the textbook definition"
         ELSE IF ~TensorsSparse(Ws, Rec.qd, Rec.qD) THEN "a tensor is not block sparse under its quantum numbers"
         ELSE IF Rec.hermitian /\ ~IsHermitianUpTo(Textbook, Rec.L, Len(Rec.qd), Rec.w2) THEN "not Hermitian"
         ELSE "operator does not conserve / shift the charge by the boundary charge difference")
    ELSE IF Rec.ev = "model_dense" THEN "dense matrix differs from the textbook definition (or sparsity / Hermiticity / conservation)"
    ELSE IF Rec.ev = "mol" THEN "molecular MPO differs from the second-quantized operator (or sparsity / Hermiticity)"
    ELSE IF Rec.ev = "same" THEN "the two build paths represent different operators"
    ELSE IF Rec.ev = "flag" THEN (IF IsForeign THEN "spec: (clause of another property) " ELSE "") \o Rec.what
    ELSE "unexpected event"
TReject == /\ HasRec /\ (CallOK = FALSE)
           /\ PrintT(<<"REJECT", tid, l, Rec.ev, Diagnose>>)
           /\ tid' = tid + 1 /\ l' = 1
TraceNext == TCall \/ TNextTrace \/ TReject
TraceSpec == TraceInit /\ [][TraceNext]_tvars
ASSUME TLCSet(1, {})
TraceDone == PrintT(<<"DONE", TLCGet(1)>>) /\ TLCGet("stats").diameter >= 1
=============================================================================
