------------------------------ MODULE BondOps ------------------------------
(* The block-sparse QR (bond_ops.qr) and the truncated block-sparse SVD      *)
(* (bond_ops.split_matrix_svd) of pytenet as staged machines, one action per *)
(* statement group of bond_ops.py:25-123 / 126-214:                           *)
(*   Entry  Dummy  SortRows  SortCols  Block (one per common charge,          *)
(*   ascending)  Truncate (SVD only)  UnsortRows  UnsortCols  (pc = "return") *)
(* Matrices are provenance tagged: the working copy of A holds <<r, c>> (the  *)
(* original position of the entry) or 0 (structural zero); an entry of the    *)
(* first factor is <<q, lr, kl>> = entry (lr, kl) of the dense factor of the  *)
(* block of charge q, an entry of the second factor <<q, kl, lc>>.            *)
(* Kernel contract for one dense block Ab of charge q (numpy.linalg.qr/svd):  *)
(*   sum_kl Qb(q,lr,kl) * Rb(q,kl,lc) = Ab(q,lr,lc),   Qb has orthonormal      *)
(*   columns (SVD: Ub * diag(S) * Vb = Ab, Ub and Vb^H isometries).           *)
(* Under that contract the invariants below say, in terms of the ORIGINAL     *)
(* index order, that the product of the returned factors is A, the first      *)
(* factor is an isometry, and both are block sparse under the returned        *)
(* intermediate charges.                                                      *)
EXTENDS BondOpsPure, TLC

CONSTANTS M, N, QALPH,
          Kind,        \* "qr" or "svd"
          WTS,         \* svd: possible squared singular values of a slot (non-negative integers)
          TolNum, TolDen,   \* svd: tolerance TolNum / TolDen
          Bug          \* "none"; negative controls: "noargsort", "bothonly", "dummycharge"

VARIABLES q0, q1, pc, A, sq0, sq1, idx0, idx1, rs, cs, Qm, Rm, qi, D, todo, blk, wts, keep
vars == <<q0, q1, pc, A, sq0, sq1, idx0, idx1, rs, cs, Qm, Rm, qi, D, todo, blk, wts, keep>>

MaxD == MinI(M, N)

(* numpy.argsort(q, kind='mergesort'): position of index i in the stable ascending order *)
Pos(q, i) == Cardinality({j \in DOMAIN q : q[j] < q[i] \/ (q[j] = q[i] /\ j < i)}) + 1
SortPerm(q) == [p \in DOMAIN q |-> CHOOSE i \in DOMAIN q : Pos(q, i) = p]        \* idx
ArgSort(idx) == [i \in DOMAIN idx |-> CHOOSE p \in DOMAIN idx : idx[p] = i]      \* np.argsort(idx)
IsIdentity(idx) == \A p \in DOMAIN idx : idx[p] = p
Common == Range(q0) \cap Range(q1)
RECURSIVE Ascending(_)
Ascending(S) == IF S = {} THEN <<>>
                ELSE LET m == CHOOSE x \in S : \A y \in S : x <= y IN <<m>> \o Ascending(S \ {m})

Z == <<>>      \* structural zero (tags are tuples, so is the zero)
ZeroMat(m, n) == [i \in 1..m |-> [j \in 1..n |-> Z]]

Init == /\ q0 \in [1..M -> QALPH] /\ q1 \in [1..N -> QALPH]
        /\ pc = "entry"
        /\ A = [r \in 1..M |-> [c \in 1..N |-> IF q0[r] = q1[c] THEN <<r, c>> ELSE Z]]   \* full allowed support
        /\ sq0 = q0 /\ sq1 = q1 /\ idx0 = [p \in 1..M |-> p] /\ idx1 = [p \in 1..N |-> p]
        /\ rs = FALSE /\ cs = FALSE
        /\ Qm = ZeroMat(M, MaxD) /\ Rm = ZeroMat(MaxD, N) /\ qi = [k \in 1..MaxD |-> 0]
        /\ D = 0 /\ todo = <<>> /\ blk = <<>> /\ wts = <<>> /\ keep = {}

Entry == /\ pc = "entry"
         /\ IF Common = {}
            THEN pc' = "dummy" /\ UNCHANGED <<idx0, idx1, todo>>
            ELSE /\ idx0' = SortPerm(q0) /\ idx1' = SortPerm(q1)
                 /\ todo' = Ascending(Common)
                 /\ pc' = "sortrows"
         /\ UNCHANGED <<q0, q1, A, sq0, sq1, rs, cs, Qm, Rm, qi, D, blk, wts, keep>>

(* no common charge: dummy bond of dimension one, second factor zero *)
Dummy == /\ pc = "dummy"
         /\ Qm' = [r \in 1..M |-> [k \in 1..MaxD |-> IF r = 1 /\ k = 1 THEN <<"unit">> ELSE Z]]
         /\ qi' = [k \in 1..MaxD |-> IF k = 1 THEN (IF Bug = "dummycharge" THEN q1[1] ELSE q0[1]) ELSE 0]
         /\ D' = 1 /\ keep' = {1}
         /\ pc' = "return"
         /\ UNCHANGED <<q0, q1, A, sq0, sq1, idx0, idx1, rs, cs, Rm, todo, blk, wts>>

SortRows == /\ pc = "sortrows"
            /\ IF IsIdentity(idx0) THEN UNCHANGED <<A, sq0, rs>>
               ELSE /\ sq0' = [p \in 1..M |-> q0[idx0[p]]]
                    /\ A' = [p \in 1..M |-> A[idx0[p]]]
                    /\ rs' = TRUE
            /\ pc' = "sortcols"
            /\ UNCHANGED <<q0, q1, sq1, idx0, idx1, cs, Qm, Rm, qi, D, todo, blk, wts, keep>>

SortCols == /\ pc = "sortcols"
            /\ IF IsIdentity(idx1) THEN UNCHANGED <<A, sq1, cs>>
               ELSE /\ sq1' = [p \in 1..N |-> q1[idx1[p]]]
                    /\ A' = [r \in 1..M |-> [p \in 1..N |-> A[r][idx1[p]]]]
                    /\ cs' = TRUE
            /\ pc' = "blocks"
            /\ UNCHANGED <<q0, q1, sq0, idx0, idx1, rs, Qm, Rm, qi, D, todo, blk, wts, keep>>

(* one shared charge: dense factorization of A[i0:i1, j0:j1] written into block positions.  As in the code the  *)
(* block is delimited by the first and last occurrence of the charge in the (sorted) charge vectors.             *)
Block == /\ pc = "blocks" /\ todo # <<>>
         /\ LET qn == Head(todo)
                I  == {i \in 1..M : sq0[i] = qn}
                J  == {j \in 1..N : sq1[j] = qn}
                i0 == CHOOSE i \in I : \A x \in I : i <= x
                i1 == (CHOOSE i \in I : \A x \in I : x <= i) + 1
                j0 == CHOOSE j \in J : \A x \in J : j <= x
                j1 == (CHOOSE j \in J : \A x \in J : x <= j) + 1
                k  == MinI(i1 - i0, j1 - j0)
            IN /\ Qm' = [r \in 1..M |-> [c \in 1..MaxD |->
                            IF r >= i0 /\ r < i1 /\ c > D /\ c <= D + k THEN <<qn, r - i0, c - D - 1>> ELSE Qm[r][c]]]
               /\ Rm' = [r \in 1..MaxD |-> [c \in 1..N |->
                            IF r > D /\ r <= D + k /\ c >= j0 /\ c < j1 THEN <<qn, r - D - 1, c - j0>> ELSE Rm[r][c]]]
               /\ qi' = [c \in 1..MaxD |-> IF c > D /\ c <= D + k THEN qn ELSE qi[c]]
               /\ blk' = Append(blk, [q |-> qn, k |-> k, rows |-> i1 - i0, cols |-> j1 - j0,
                                      sub |-> [lr \in 0..(i1 - i0 - 1) |-> [lc \in 0..(j1 - j0 - 1) |-> A[i0 + lr][j0 + lc]]]])
               /\ D' = D + k
               /\ IF Kind = "svd"
                  THEN \E w \in [1..k -> WTS] :      \* LAPACK returns the singular values of a block in descending order
                          /\ \A a \in 1..(k-1) : w[a] >= w[a+1]
                          /\ wts' = wts \o w
                  ELSE wts' = wts
         /\ todo' = Tail(todo)
         /\ pc' = IF Tail(todo) # <<>> THEN "blocks" ELSE IF Kind = "svd" THEN "truncate" ELSE "unsortrows"
         /\ keep' = IF Kind = "svd" THEN keep ELSE 1..D'
         /\ UNCHANGED <<q0, q1, A, sq0, sq1, idx0, idx1, rs, cs>>

(* retained_bond_indices across ALL blocks: normalised squared values accumulated from the smallest upwards;  *)
(* a value is kept iff its cumulative weight exceeds the tolerance.  `ord` is any ascending order of the slots *)
(* (numpy.argsort is not stable: ties may come in any order).                                                  *)
Total == LET S[k \in 0..D] == IF k = 0 THEN 0 ELSE S[k-1] + wts[k] IN S[D]
Retained(ord) ==
    LET C[p \in 0..D] == IF p = 0 THEN 0 ELSE C[p-1] + wts[ord[p]]
    IN {ord[p] : p \in {x \in 1..D : TolDen * C[x] > TolNum * Total}}
AscendingOrders == {ord \in [1..D -> 1..D] : /\ \A a, b \in 1..D : a # b => ord[a] # ord[b]
                                             /\ \A a \in 1..(D-1) : wts[ord[a]] <= wts[ord[a+1]]}
Truncate == /\ pc = "truncate"
            /\ IF Total = 0 THEN keep' = {}
               ELSE \E ord \in AscendingOrders : keep' = Retained(ord)
            /\ pc' = "unsortrows"
            /\ UNCHANGED <<q0, q1, A, sq0, sq1, idx0, idx1, rs, cs, Qm, Rm, qi, D, todo, blk, wts>>

UnsortRows == /\ pc = "unsortrows"
              /\ IF (IF Bug = "bothonly" THEN rs /\ cs ELSE rs)
                 THEN Qm' = [r \in 1..M |-> Qm[IF Bug = "noargsort" THEN idx0[r] ELSE ArgSort(idx0)[r]]]
                 ELSE UNCHANGED Qm
              /\ pc' = "unsortcols"
              /\ UNCHANGED <<q0, q1, A, sq0, sq1, idx0, idx1, rs, cs, Rm, qi, D, todo, blk, wts, keep>>

UnsortCols == /\ pc = "unsortcols"
              /\ IF (IF Bug = "bothonly" THEN rs /\ cs ELSE cs)
                 THEN Rm' = [k \in 1..MaxD |-> [c \in 1..N |-> Rm[k][IF Bug = "noargsort" THEN idx1[c] ELSE ArgSort(idx1)[c]]]]
                 ELSE UNCHANGED Rm
              /\ pc' = "return"
              /\ UNCHANGED <<q0, q1, A, sq0, sq1, idx0, idx1, rs, cs, Qm, qi, D, todo, blk, wts, keep>>

Next == Entry \/ Dummy \/ SortRows \/ SortCols \/ Block \/ Truncate \/ UnsortRows \/ UnsortCols
Spec == Init /\ [][Next]_vars

----------------------------------------------------------------------------
IsDummy == Common = {}
BlockOf(qn) == blk[CHOOSE b \in DOMAIN blk : blk[b].q = qn]
Kept == keep        \* QR: all columns; SVD: the retained slots

(* C11/C12 "the product of the factors equals the matrix" (for the SVD: restricted to the kept slots, it equals A *)
(* minus the discarded rank-one terms), in the ORIGINAL index order                                              *)
ProductOK ==
    (pc = "return" /\ ~IsDummy) =>
        \A r \in 1..M, c \in 1..N :
            LET K == {k \in 1..D : Qm[r][k] # Z /\ Rm[k][c] # Z}
            IN IF q0[r] # q1[c] THEN K = {}
               ELSE LET b == BlockOf(q0[r])
                    IN /\ K # {}
                       /\ \A k \in K : Qm[r][k][1] = q0[r] /\ Rm[k][c][1] = q0[r] /\ Qm[r][k][3] = Rm[k][c][2]
                       /\ {Qm[r][k][3] : k \in K} = 0..(b.k - 1)
                       /\ \A k1, k2 \in K : Qm[r][k1][2] = Qm[r][k2][2] /\ Rm[k1][c][3] = Rm[k2][c][3]
                       /\ \A k \in K : b.sub[Qm[r][k][2]][Rm[k][c][3]] = <<r, c>>

(* first factor has orthonormal columns: every column is one complete column of one dense factor, two columns of *)
(* the same block are different columns of it, columns of different blocks have disjoint row support             *)
IsometryOK ==
    (pc = "return" /\ ~IsDummy) =>
        /\ \A k \in 1..D :
              LET R0 == {r \in 1..M : Qm[r][k] # Z}
              IN /\ R0 = {r \in 1..M : q0[r] = qi[k]}
                 /\ \A r1, r2 \in R0 : (r1 # r2 => Qm[r1][k][2] # Qm[r2][k][2]) /\ Qm[r1][k][3] = Qm[r2][k][3]
                                       /\ Qm[r1][k][1] = qi[k]
        /\ \A k1, k2 \in 1..D : k1 # k2 =>
              \A r \in 1..M : (Qm[r][k1] # Z /\ Qm[r][k2] # Z) => Qm[r][k1][3] # Qm[r][k2][3]
(* the same for the rows of the second factor (needed for the SVD: v has orthonormal rows) *)
CoIsometryOK ==
    (pc = "return" /\ ~IsDummy /\ Kind = "svd") =>
        \A k \in 1..D :
            LET C0 == {c \in 1..N : Rm[k][c] # Z}
            IN /\ C0 = {c \in 1..N : q1[c] = qi[k]}
               /\ \A c1, c2 \in C0 : (c1 # c2 => Rm[k][c1][3] # Rm[k][c2][3]) /\ Rm[k][c1][2] = Rm[k][c2][2]

(* both factors are block sparse under the intermediate charges, one per column *)
SparseOK ==
    pc = "return" =>
        /\ \A r \in 1..M, k \in 1..D : Qm[r][k] # Z => q0[r] = qi[k]
        /\ \A k \in 1..D, c \in 1..N : Rm[k][c] # Z => qi[k] = q1[c]

DimOK == pc = "return" => (D >= 1 /\ D <= MaxD)

(* the machine agrees with the closed form used by the trace specification (BondOpsPure) *)
ClosedFormOK == pc = "return" =>
                   /\ D = PredD(q0, q1)
                   /\ \A q \in QALPH : Cardinality({k \in 1..D : qi[k] = q}) = PredCount(q0, q1, q)

DummyOK == (pc = "return" /\ IsDummy) =>
              /\ D = 1 /\ \A c \in 1..N : Rm[1][c] = Z
              /\ Qm[1][1] # Z /\ \A r \in 2..M : Qm[r][1] = Z

(* C12: truncation keeps exactly the largest weights within the tolerance *)
Discarded == (1..D) \ keep
SumW(S) == LET F[k \in 0..D] == IF k = 0 THEN 0 ELSE F[k-1] + (IF k \in S THEN wts[k] ELSE 0) IN F[D]
TruncationOK ==
    (pc = "return" /\ Kind = "svd" /\ ~IsDummy) =>
        /\ TolDen * SumW(Discarded) <= TolNum * Total                         \* discarded relative weight <= tol
        /\ \A a \in keep, b \in Discarded : wts[a] >= wts[b]                    \* no kept value smaller than a discarded one
        /\ \A a \in keep : wts[a] > 0                                           \* positive singular values
        /\ (keep # {} ) => \A a \in keep : (\A x \in keep : wts[a] <= wts[x]) =>
                               TolDen * (SumW(Discarded) + wts[a]) > TolNum * Total    \* maximal: one more would exceed tol
        /\ TolNum = 0 => Discarded = {k \in 1..D : wts[k] = 0}                  \* zero tolerance keeps every non-zero value
        /\ Total > 0 => keep # {}

(* the machine's truncation agrees with the closed form used by the trace specification *)
TruncClosedFormOK ==
    (pc = "return" /\ Kind = "svd" /\ ~IsDummy) =>
        KeepAllowed(wts, [k \in 1..Cardinality(keep) |-> wts[CHOOSE x \in keep : Cardinality({y \in keep : y < x}) = k - 1]], TolNum, TolDen)
=============================================================================
