---------------------------- MODULE TraceBondOps ----------------------------
(* Trace validation of bond_ops.qr, bond_ops.split_matrix_svd,               *)
(* bond_ops.retained_bond_indices and mps.split_mps_tensor                   *)
(* (harness/props/c11.py, c12.py) against the closed forms of BondOps.tla.   *)
(* One trace = one call.  Exact calls (monomial blocks: signed / phased      *)
(* permutations times integers) carry A and the returned factors as Gaussian *)
(* integers, and TLC evaluates the algebraic identities exactly; generic     *)
(* calls carry the supports of the factors and the residuals as             *)
(* ok + base-10 exponent (mode N).                                           *)
EXTENDS BondOpsPure, Ring, TLC, Json, IOUtils

Data == JsonDeserialize(IOEnv.TRACE_FILE)
Tr == Data.traces
(* Two levels (harness/parallel.py): with Strict the closed forms of BondOps.tla for what the code does (intermediate     *)
(* dimension = block-wise min(rows, columns), ascending index lists) are demanded; C11 / C12 themselves only bound the     *)
(* intermediate dimension by the smaller matrix dimension.  Diagnostics of the strict-only clauses start with "spec: ".    *)
Strict == IF "strict" \in DOMAIN Data THEN Data.strict ELSE TRUE
VARIABLES tid, l
tvars == <<tid, l>>
Rec == Tr[tid][l]
HasRec == tid <= Len(Tr) /\ l <= Len(Tr[tid])
TraceInit == tid = 1 /\ l = 1

Dl == Len(Rec.qi)
IsDummyCall == CommonOf(Rec.q0, Rec.q1) = {}
G(x) == <<x[1], x[2]>>

(* shape and charge bookkeeping common to qr and svd *)
ShapeOK == /\ Len(Rec.q0) = Rec.m /\ Len(Rec.q1) = Rec.n
           /\ Len(Rec.sf) = Rec.m /\ \A r \in 1..Rec.m : Len(Rec.sf[r]) = Dl
           /\ Len(Rec.ss) = Dl /\ \A k \in 1..Dl : Len(Rec.ss[k]) = Rec.n
DimBoundP == Dl <= MinI(Rec.m, Rec.n)                               \* C11 / C12
DimBoundS == /\ Dl <= PredD(Rec.q0, Rec.q1)                         \* BondOps closed form: block-wise min(rows, columns)
             /\ \A x \in Range(Rec.qi) : CountOf(Rec.qi, x) <= PredCount(Rec.q0, Rec.q1, x)
DimBound == DimBoundP /\ (Strict => DimBoundS)
(* block sparsity of both factors under the RETURNED intermediate charges (sf / ss: 0/1 supports) *)
SparseFactors == /\ \A r \in 1..Rec.m, k \in 1..Dl : Rec.sf[r][k] = 1 => Rec.q0[r] = Rec.qi[k]
                 /\ \A k \in 1..Dl, c \in 1..Rec.n : Rec.ss[k][c] = 1 => Rec.qi[k] = Rec.q1[c]
NumericOK == Rec.resid_ok /\ Rec.iso_ok /\ (Strict => Rec.dtype_ok)       \* dtype of the factors (real for real input, never integer): what the code does

(* exact identities on monomial instances *)
ExactProduct == \A r \in 1..Rec.m, c \in 1..Rec.n :
                    GSum(Dl, LAMBDA k : GMul(G(Rec.F[r][k]), G(Rec.S[k][c]))) = G(Rec.A[r][c])
ExactIsometry == \A k1, k2 \in 1..Dl :
                    GSum(Rec.m, LAMBDA r : GMul(GConj(G(Rec.F[r][k1])), G(Rec.F[r][k2]))) = (IF k1 = k2 THEN GOne ELSE GZero)

QrOK == /\ ShapeOK /\ DimBound /\ SparseFactors /\ NumericOK
        /\ Dl >= 1
        /\ IsDummyCall => (Dl = 1 /\ \A c \in 1..Rec.n : Rec.ss[1][c] = 0)
        /\ (Strict /\ ~IsDummyCall /\ Rec.generic_full_rank) => Dl = PredD(Rec.q0, Rec.q1)
        /\ Rec.exact => (ExactProduct /\ ExactIsometry)

(* svd: F = u, S = v (both Gaussian), sv = singular values (integers on exact instances) *)
ExactSvdError ==
    \* || A - u diag(sv) v ||^2 = discarded weight, exactly
    ISum(Rec.m, LAMBDA r : ISum(Rec.n, LAMBDA c :
        GAbs2(GSub(G(Rec.A[r][c]), GSum(Dl, LAMBDA k : GMul(GScale(Rec.sv[k], G(Rec.F[r][k])), G(Rec.S[k][c])))))))
      = DiscardedWeight(Rec.allw, [k \in 1..Dl |-> Rec.sv[k] * Rec.sv[k]])
ExactCoIsometry == \A k1, k2 \in 1..Dl :
                    GSum(Rec.n, LAMBDA c : GMul(G(Rec.S[k1][c]), GConj(G(Rec.S[k2][c])))) = (IF k1 = k2 THEN GOne ELSE GZero)
SvdOK == /\ ShapeOK /\ SparseFactors /\ NumericOK
         /\ Rec.input_unchanged
         /\ Rec.s_positive
         /\ Len(Rec.s_len) = 1 /\ Rec.s_len[1] = Dl
         /\ IsDummyCall \/ Rec.allzero \/ DimBound
         /\ Rec.exact =>
               /\ \A k \in 1..Dl : Rec.sv[k] > 0
               /\ KeepAllowed(Rec.allw, [k \in 1..Dl |-> Rec.sv[k] * Rec.sv[k]], Rec.tn, Rec.td)
               \* the kept values carry the charges of their blocks
               /\ \A x \in Range(Rec.qi) : \A g \in Range(Rec.allw) :
                     Cardinality({k \in 1..Dl : Rec.qi[k] = x /\ Rec.sv[k] * Rec.sv[k] = g})
                        <= Cardinality({k \in DOMAIN Rec.allw : Rec.allq[k] = x /\ Rec.allw[k] = g})
               /\ ExactSvdError /\ ExactIsometry /\ ExactCoIsometry
               /\ Rec.tn = 0 => Dl = Cardinality({k \in DOMAIN Rec.allw : Rec.allw[k] > 0})

(* retained_bond_indices on its own: idx = kept positions (0-based) of the weight vector ws *)
RbiOK == /\ \A a, b \in DOMAIN Rec.idx : a # b => Rec.idx[a] # Rec.idx[b]
         /\ \A a \in DOMAIN Rec.idx : Rec.idx[a] \in 0..(Len(Rec.ws) - 1)
         /\ KeepAllowed(Rec.ws, [k \in DOMAIN Rec.idx |-> Rec.ws[Rec.idx[k] + 1]], Rec.tn, Rec.td)
         /\ Strict => \A a \in 1..(Len(Rec.idx) - 1) : Rec.idx[a] < Rec.idx[a + 1]      \* np.where: ascending positions
         /\ Rec.input_unchanged

(* split_mps_tensor: logged flags (mode N) + exact merge(A0, A1) = A on monomial two-site tensors *)
SplitOK == /\ Rec.merge_ok /\ Rec.sparse0 /\ Rec.sparse1 /\ Rec.qlen_ok /\ Rec.input_unchanged /\ Rec.iso_ok
           /\ Rec.exact => Rec.exact_merge_equal

CallOK == IF Rec.ev = "qr" THEN QrOK ELSE IF Rec.ev = "svd" THEN SvdOK ELSE IF Rec.ev = "rbi" THEN RbiOK
          ELSE IF Rec.ev = "split" THEN SplitOK ELSE FALSE

TCall == /\ HasRec /\ (CallOK = TRUE) /\ l' = l + 1 /\ tid' = tid
TNextTrace == /\ tid <= Len(Tr) /\ l > Len(Tr[tid])
              /\ TLCSet(1, TLCGet(1) \cup {tid})
              /\ tid' = tid + 1 /\ l' = 1

Diagnose ==
    IF Rec.ev = "raise" THEN Rec.exc
    ELSE IF Rec.ev = "qr" THEN
        (IF ~ShapeOK THEN "shapes of the factors / charge list inconsistent"
         ELSE IF ~DimBoundP THEN "intermediate dimension exceeds the smaller matrix dimension"
         ELSE IF Strict /\ (~DimBound) THEN "spec: intermediate dimension exceeds the block-wise bound"
         ELSE IF ~SparseFactors THEN "a factor is not block sparse under the returned intermediate charges"
         ELSE IF IsDummyCall /\ ~(Dl = 1 /\ \A c \in 1..Rec.n : Rec.ss[1][c] = 0) THEN "dummy bond malformed"
         ELSE IF ~(Rec.resid_ok /\ Rec.iso_ok) THEN "residual / isometry defect out of bounds (mode N)"
         ELSE IF Strict /\ ~Rec.dtype_ok THEN "spec: dtype of the factors (complex factors for real input, or integer factors)"
         ELSE IF Rec.exact /\ ~ExactProduct THEN "Q R # A exactly"
         ELSE IF Rec.exact /\ ~ExactIsometry THEN "Q^H Q # 1 exactly"
         ELSE IF Dl < 1 THEN "no intermediate state"
         ELSE IF Strict THEN "spec: intermediate dimension differs from the block-wise rank of a generic matrix" ELSE "a property clause of this event failed (no specific diagnostic)")
    ELSE IF Rec.ev = "svd" THEN
        (IF ~ShapeOK THEN "shapes inconsistent"
         ELSE IF ~SparseFactors THEN "a factor is not block sparse under the returned intermediate charges"
         ELSE IF ~Rec.input_unchanged THEN "input array modified"
         ELSE IF ~(IsDummyCall \/ Rec.allzero \/ DimBoundP) THEN "intermediate dimension exceeds the smaller matrix dimension"
         ELSE IF Strict /\ (~(IsDummyCall \/ Rec.allzero \/ DimBound)) THEN "spec: intermediate dimension exceeds the block-wise bound"
         ELSE IF ~Rec.s_positive THEN "non-positive singular value returned"
         ELSE IF ~(Rec.resid_ok /\ Rec.iso_ok) THEN "error identity / tolerance bound / maximality / isometry out of bounds (mode N)"
         ELSE IF Strict /\ ~Rec.dtype_ok THEN "spec: dtype of the factors (complex factors for real input, or integer factors)"
         ELSE IF Rec.exact /\ ~KeepAllowed(Rec.allw, [k \in 1..Dl |-> Rec.sv[k] * Rec.sv[k]], Rec.tn, Rec.td) THEN "kept singular values are not the ones prescribed by the tolerance rule"
         ELSE IF Rec.exact /\ ~ExactSvdError THEN "|| A - u s v ||^2 # discarded weight exactly"
         ELSE "isometry / charge bookkeeping of the kept values")
    ELSE IF Rec.ev = "rbi" THEN
        (IF ~Rec.input_unchanged THEN "retained_bond_indices: input modified"
         ELSE IF ~KeepAllowed(Rec.ws, [k \in DOMAIN Rec.idx |-> Rec.ws[Rec.idx[k] + 1]], Rec.tn, Rec.td) THEN "retained_bond_indices: index set differs from the tolerance rule"
         ELSE IF Strict /\ (~(\A a \in 1..(Len(Rec.idx) - 1) : Rec.idx[a] < Rec.idx[a + 1]) /\ (\A a, b \in DOMAIN Rec.idx : a # b => Rec.idx[a] # Rec.idx[b])) THEN "spec: retained_bond_indices: indices not in ascending order"
         ELSE "retained_bond_indices: repeated or out-of-range index")
    ELSE IF Rec.ev = "split" THEN "split_mps_tensor: merge / sparsity / isometry / input flags"
    ELSE "unexpected event"

TReject == /\ HasRec /\ (CallOK = FALSE)
           /\ PrintT(<<"REJECT", tid, l, Rec.ev, Diagnose>>)
           /\ tid' = tid + 1 /\ l' = 1
TraceNext == TCall \/ TNextTrace \/ TReject
TraceSpec == TraceInit /\ [][TraceNext]_tvars
ASSUME TLCSet(1, {})
TraceDone == PrintT(<<"DONE", TLCGet(1)>>) /\ TLCGet("stats").diameter >= 1
=============================================================================
