---------------------------- MODULE MC_HeapInd ----------------------------
(* Apalache wrapper for Heap.tla: NoSharing as an INDUCTIVE invariant and Frozen as an action invariant, for call       *)
(* sequences of ANY length and unbounded digests (TLC explores the same model under the state constraint DigBound).      *)
(*   apalache-mc check --init=Init    --inv=IndInv    --length=0 MC_HeapInd.tla     (base case)                           *)
(*   apalache-mc check --init=IndInit --inv=IndInv    --length=1 MC_HeapInd.tla     (inductive step)                      *)
(*   apalache-mc check --init=IndInit --inv=FrozenAct --length=1 MC_HeapInd.tla     (action invariant from any IndInv state) *)
EXTENDS Integers, FiniteSets

NOBJ == 3
NBUF == 6
AliasBug == FALSE

VARIABLES
    \* @type: Set(Int);
    live,
    \* @type: Int -> Set(Int);
    bufs,
    \* @type: Int -> Int;
    dig,
    \* @type: { op: Str, target: Int, operands: Set(Int) };
    last

INSTANCE Heap

TypeOK == /\ live \in SUBSET Obj
          /\ bufs \in [Obj -> SUBSET Buf]
          /\ dig \in [Buf -> Nat]
          /\ last \in [op : {"init", "pure", "fresh", "inplace", "poke"}, target : 0..NOBJ, operands : SUBSET Obj]
IndInv == TypeOK /\ NoSharing
IndInit == IndInv
FrozenAct == \A o \in live : (o # last'.target) => \A b \in bufs[o] : dig'[b] = dig[b]
=============================================================================
