------------------------------ MODULE RankOps ------------------------------
(* Rank of an integer matrix over the prime field GF(p) by Gaussian         *)
(* elimination.  rank_p(M) <= rank_Q(M) for every prime p, with equality    *)
(* unless p divides all maximal non-vanishing minors; the harness cross-    *)
(* checks against an exact fraction-based rank computed in Python.          *)
(* Used for the operator Schmidt rank of C20 (p < 46341 so that products    *)
(* stay below 2^31, the integer range of TLC).                              *)
EXTENDS Integers, Sequences, FiniteSets

ModP(x, p) == ((x % p) + p) % p
RowMod(r, p) == [j \in DOMAIN r |-> ModP(r[j], p)]

(* rows: sequence of rows (reduced mod p); c: current column; acc: rank so far *)
RECURSIVE Elim(_, _, _, _, _)
Elim(rows, c, ncols, p, acc) ==
    IF rows = <<>> \/ c > ncols THEN acc
    ELSE LET piv == {i \in DOMAIN rows : rows[i][c] # 0}
         IN IF piv = {} THEN Elim(rows, c + 1, ncols, p, acc)
            ELSE LET i0 == CHOOSE i \in piv : TRUE
                     pr == rows[i0]
                     a  == pr[c]
                     others == SelectSeq([k \in 1..Len(rows) |-> IF k = i0 THEN <<>> ELSE rows[k]], LAMBDA r : r # <<>>)
                     \* fraction-free step: r := a * r - r[c] * pr   (mod p); a is invertible mod p
                     red == [k \in DOMAIN others |->
                               IF others[k][c] = 0 THEN others[k]
                               ELSE [j \in DOMAIN pr |-> ModP(a * others[k][j] - others[k][c] * pr[j], p)]]
                     nz == SelectSeq(red, LAMBDA r : \E j \in DOMAIN r : r[j] # 0)
                 IN Elim(nz, c + 1, ncols, p, acc + 1)

RankModP(M, p) ==
    IF M = <<>> THEN 0
    ELSE LET rows == SelectSeq([k \in DOMAIN M |-> RowMod(M[k], p)], LAMBDA r : \E j \in DOMAIN r : r[j] # 0)
         IN IF rows = <<>> THEN 0 ELSE Elim(rows, 1, Len(M[1]), p, 0)

MaxNat(S) == IF S = {} THEN 0 ELSE CHOOSE x \in S : \A y \in S : y <= x
=============================================================================
