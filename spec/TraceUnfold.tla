---------------------------- MODULE TraceUnfold ----------------------------
(* Trace validation of OpGraph.from_optrees, OpGraph.from_automaton and of   *)
(* the dense meaning of chains / trees / graphs (harness/props/c17.py).      *)
(* One trace = one input program:                                            *)
(*   trees   L, idoid, trees (nested [q, ch]) with istart                    *)
(*   autop   L, automaton with activity / operator tables per site           *)
(*   graph   the returned graph, is_consistent(), length                     *)
(*   raise   exception class (accepted iff the model's guard fails)          *)
(*   dense   kind, opmap, d, n, matrix: as_matrix() of a chain / tree /      *)
(*           graph (both directions) under an integer operator map           *)
EXTENDS UnfoldOps, OpGraphOps, Json, IOUtils

Data == JsonDeserialize(IOEnv.TRACE_FILE)
Tr == Data.traces
(* Two levels (harness/parallel.py): that the graph of a tree list is simplified, that the layers of an unrolled automaton are    *)
(* exactly its live states, that no node dangles and no operator id repeats on an edge, and that a program outside the model's     *)
(* guard is refused, describes the code (Unfold.tla); C17 asks for a consistent graph of the requested length with the right      *)
(* meaning.  Strict-only diagnostics start with "spec: ".                                                                       *)
Strict == IF "strict" \in DOMAIN Data THEN Data.strict ELSE TRUE

VARIABLES tid, l, pc, L, target, guard, widths, G
tvars == <<tid, l, pc, L, target, guard, widths, G>>
NoGraph == [nodes |-> <<>>, edges |-> <<>>, term |-> <<0, 0>>]
Rec == Tr[tid][l]
HasRec == tid <= Len(Tr) /\ l <= Len(Tr[tid])
Advance == l' = l + 1 /\ tid' = tid
Blank == pc' = "none" /\ L' = 0 /\ target' = {} /\ guard' = TRUE /\ widths' = <<>> /\ G' = NoGraph
TraceInit == tid = 1 /\ l = 1 /\ pc = "none" /\ L = 0 /\ target = {} /\ guard = TRUE /\ widths = <<>> /\ G = NoGraph

(* JSON tree -> [q, ch] value *)
RECURSIVE TreeOfJson(_)
TreeOfJson(j) == [q |-> j.q, ch |-> [k \in DOMAIN j.ch |-> [oid |-> j.ch[k].oid, c |-> j.ch[k].c, node |-> TreeOfJson(j.ch[k].node)]]]
TreesOfRec == [k \in DOMAIN Rec.trees |-> [root |-> TreeOfJson(Rec.trees[k].root), istart |-> Rec.trees[k].istart]]

AutOfRec == [nodes |-> [n \in {Rec.nodes[i].id : i \in DOMAIN Rec.nodes} |->
                           [q |-> Rec.nodes[CHOOSE i \in DOMAIN Rec.nodes : Rec.nodes[i].id = n].q]],
             edges |-> [e \in DOMAIN Rec.edges |->
                           [src |-> Rec.edges[e].src, dst |-> Rec.edges[e].dst, act |-> Rec.edges[e].act,
                            ops |-> [i \in DOMAIN Rec.edges[e].ops |->
                                        {<<Rec.edges[e].ops[i][k][1], Rec.edges[e].ops[i][k][2]>> : k \in DOMAIN Rec.edges[e].ops[i]}]]],
             term |-> <<Rec.term[1], Rec.term[2]>>]

TTrees == /\ HasRec /\ Rec.ev = "trees" /\ pc = "none"
          /\ L' = Rec.L
          /\ guard' = (\A k \in DOMAIN TreesOfRec : TreeOK(TreesOfRec[k], Rec.L))
          /\ target' = IF guard' THEN TreesPoly(TreesOfRec, Rec.L, Rec.idoid) ELSE {}
          /\ widths' = <<>>
          \* the specified construction (before simplify) already has the right meaning
          /\ guard' => Den(TreesGraph(TreesOfRec, Rec.L, Rec.idoid)) = target'
          /\ pc' = "trees" /\ G' = G /\ Advance

AutNodesFull == [n \in {Rec.nodes[i].id : i \in DOMAIN Rec.nodes} |->
                   LET r == Rec.nodes[CHOOSE i \in DOMAIN Rec.nodes : Rec.nodes[i].id = n]
                   IN [ein |-> {r.ein[k] : k \in DOMAIN r.ein}, eout |-> {r.eout[k] : k \in DOMAIN r.eout}]]
AutEdgesFull == [e \in {Rec.edges[i].eid : i \in DOMAIN Rec.edges} |->
                   LET r == Rec.edges[CHOOSE i \in DOMAIN Rec.edges : Rec.edges[i].eid = e] IN [src |-> r.src, dst |-> r.dst]]
TAutop == /\ HasRec /\ Rec.ev = "autop" /\ pc = "none"
          /\ Rec.aut_consistent = AutConsistent(AutNodesFull, AutEdgesFull, Rec.term)       \* cross-check of AutOp.is_consistent()
          /\ Rec.aut_consistent
          /\ Rec.broken_detected                    \* a deliberately broken copy must be reported inconsistent by the code
          /\ L' = Rec.L
          /\ guard' = AutHasPath(AutOfRec, Rec.L)
          /\ target' = AutPoly(AutOfRec, Rec.L)
          /\ widths' = [i \in 0..Rec.L |-> Cardinality(AutActive(AutOfRec, Rec.L)[i])]
          /\ guard' => Den(AutGraph(AutOfRec, Rec.L)) = target'
          /\ pc' = "autop" /\ G' = G /\ Advance

TGraph == /\ HasRec /\ Rec.ev = "graph" /\ pc \in {"trees", "autop"}
          /\ Strict => guard
          /\ JsonIdsUnique(Rec.g)
          /\ LET g == GraphOfJson(Rec.g)
             IN /\ JsonListsOK(Rec.g) /\ ConsistentG(g) /\ Rec.cons /\ (Strict => UniqueOids(g))
                /\ GraphLength(g) = L /\ Rec.length = L
                /\ Den(g) = target /\ DenBackward(g) = target
                /\ Strict => AllConnected(g)
                /\ (Strict /\ pc = "trees") => Simplified(g)
                /\ (Strict /\ pc = "autop") => \A i \in 0..L : Width(g, i) = widths[i]
                /\ G' = g
          /\ pc' = "graph" /\ UNCHANGED <<L, target, guard, widths>> /\ Advance

TRaise == /\ HasRec /\ Rec.ev = "raise" /\ pc \in {"trees", "autop"}
          /\ ~guard
          /\ pc' = "graph" /\ UNCHANGED <<L, target, guard, widths, G>> /\ Advance

(* dense meaning: the logged matrix is the matrix of the polynomial under the logged operator map *)
OpMapOfRec == [o \in {Rec.opmap[k].oid : k \in DOMAIN Rec.opmap} |-> Rec.opmap[CHOOSE k \in DOMAIN Rec.opmap : Rec.opmap[k].oid = o].m]
DensePoly ==
    IF Rec.kind = "graph" THEN target
    ELSE IF Rec.kind = "chain" THEN PolyTerm(Rec.oids, Rec.coeff)
    ELSE TreePoly(TreeOfJson(Rec.root), Height(TreeOfJson(Rec.root)), Rec.idoid)
TDense == /\ HasRec /\ Rec.ev = "dense" /\ pc \in {"graph", "none"}
          /\ Rec.kind = "graph" => pc = "graph"
          /\ LET dim == Pow(Rec.d, Rec.n)
             IN /\ Len(Rec.m) = dim
                /\ \A r \in 1..dim : Len(Rec.m[r]) = dim
                   /\ \A c \in 1..dim : Rec.m[r][c] = PolyEntry(DensePoly, OpMapOfRec, Rec.d, r - 1, c - 1)
          /\ pc' = IF pc = "none" THEN "graph" ELSE pc
          /\ UNCHANGED <<L, target, guard, widths, G>> /\ Advance

TStep == TTrees \/ TAutop \/ TGraph \/ TRaise \/ TDense

TNextTrace == /\ tid <= Len(Tr) /\ l > Len(Tr[tid]) /\ pc = "graph"
              /\ TLCSet(1, TLCGet(1) \cup {tid})
              /\ tid' = tid + 1 /\ l' = 1 /\ Blank

Diagnose ==
    IF Rec.ev = "raise" THEN "exception although the input program is in the documented domain: " \o Rec.exc
    ELSE IF Rec.ev = "graph" THEN
        (IF Strict /\ (~guard) THEN "spec: a graph was returned although the model's guard fails"
         ELSE IF ~JsonIdsUnique(Rec.g) THEN "duplicate ids"
         ELSE IF ~(JsonListsOK(Rec.g) /\ ConsistentG(GraphOfJson(Rec.g))) THEN "graph inconsistent"
         ELSE IF GraphLength(GraphOfJson(Rec.g)) # L \/ Rec.length # L THEN "wrong length"
         ELSE IF Den(GraphOfJson(Rec.g)) # target THEN "graph does not denote the meaning of the input program"
         ELSE IF Strict /\ (pc = "autop" /\ ~(\A i \in 0..L : Width(GraphOfJson(Rec.g), i) = widths[i])) THEN "spec: layer widths differ from the live automaton states (dead states / missing states)"
         ELSE IF Strict /\ (pc = "trees" /\ ~Simplified(GraphOfJson(Rec.g))) THEN "spec: graph from trees is not simplified"
         ELSE IF ~Rec.cons THEN "is_consistent() false on a consistent graph"
         ELSE IF Strict THEN "spec: dangling nodes / duplicate operator ids on an edge" ELSE "a property clause of this event failed (no specific diagnostic)")
    ELSE IF Rec.ev = "dense" THEN "as_matrix() differs from the matrix of the symbolic meaning"
    ELSE IF Rec.ev \in {"trees", "autop"} THEN "the specified construction itself does not denote the meaning (spec problem)"
    ELSE "unexpected event"

TReject == /\ tid <= Len(Tr)
           /\ \/ (HasRec /\ ~ENABLED TStep)
              \/ (l > Len(Tr[tid]) /\ pc # "graph")
           /\ PrintT(<<"REJECT", tid, l, IF HasRec THEN Rec.ev ELSE "eot", IF HasRec THEN Diagnose ELSE "trace ended early">>)
           /\ tid' = tid + 1 /\ l' = 1 /\ Blank
TraceNext == TStep \/ TNextTrace \/ TReject
TraceSpec == TraceInit /\ [][TraceNext]_tvars
ASSUME TLCSet(1, {})
TraceDone == PrintT(<<"DONE", TLCGet(1)>>) /\ TLCGet("stats").diameter >= 1
=============================================================================
