----------------------------- MODULE TraceChain -----------------------------
(* Trace validation of the MPS / MPO arithmetic (C03) and of inner products, *)
(* expectation values and environment blocks (C04) against the dense         *)
(* meaning defined in ChainOps.tla.  One trace = one history over a pool of  *)
(* objects named by integers; `den` maps an object to its dense meaning,     *)
(* which for results of operations is computed from the LAW (sum, product,   *)
(* application ...), never from the result tensors: the result tensors the   *)
(* code produced are contracted independently and must agree.                *)
EXTENDS ChainOps, Json, IOUtils

Data == JsonDeserialize(IOEnv.TRACE_FILE)
Tr == Data.traces
(* Two levels (harness/parallel.py): the meaning of MPO.identity(scale) for scale # 1 is taken from the code (scale^L * 1; the   *)
(* docstring does not define it) and is therefore a Strict-only clause; everything else is C03 / C04.                            *)
Strict == IF "strict" \in DOMAIN Data THEN Data.strict ELSE TRUE
VARIABLES tid, l, den
tvars == <<tid, l, den>>
Rec == Tr[tid][l]
HasRec == tid <= Len(Tr) /\ l <= Len(Tr[tid])
TraceInit == tid = 1 /\ l = 1 /\ den = <<>>
Advance == l' = l + 1 /\ tid' = tid

(* JSON leaves are [re, im] pairs *)
G2(x) == <<x[1], x[2]>>
T3(J) == [s \in DOMAIN J |-> [a \in DOMAIN J[s] |-> [b \in DOMAIN J[s][a] |-> G2(J[s][a][b])]]]
T4(J) == [s \in DOMAIN J |-> [t \in DOMAIN J[s] |-> [a \in DOMAIN J[s][t] |-> [b \in DOMAIN J[s][t][a] |-> G2(J[s][t][a][b])]]]]
T2(J) == [a \in DOMAIN J |-> [b \in DOMAIN J[a] |-> G2(J[a][b])]]
T1(J) == [a \in DOMAIN J |-> G2(J[a])]
MpsOf(J) == [i \in DOMAIN J |-> T3(J[i])]
MpoOf(J) == [i \in DOMAIN J |-> T4(J[i])]
Put(id, v) == den' = [k \in DOMAIN den \cup {id} |-> IF k = id THEN v ELSE den[k]]
Has(id) == id \in DOMAIN den

(* ---------------------------------------------------------------- C03 *)
TNewMps == /\ Rec.ev = "mps" /\ Put(Rec.id, Vec(MpsOf(Rec.T)))
TNewMpo == /\ Rec.ev = "mpo" /\ Put(Rec.id, Mat(MpoOf(Rec.T)))
TAddMps == /\ Rec.ev = "add_mps" /\ Has(Rec.a) /\ Has(Rec.b)
           /\ LET want == VAdd(den[Rec.a], VScale(GInt(Rec.alpha), den[Rec.b]))
              IN Vec(MpsOf(Rec.T)) = want /\ Put(Rec.r, want)
TAddMpo == /\ Rec.ev = "add_mpo" /\ Has(Rec.a) /\ Has(Rec.b)
           /\ LET want == MAdd(den[Rec.a], MScale(GInt(Rec.alpha), den[Rec.b]))
              IN Mat(MpoOf(Rec.T)) = want /\ Put(Rec.r, want)
TMul == /\ Rec.ev = "mul" /\ Has(Rec.a) /\ Has(Rec.b)
        /\ LET want == GMatMul(den[Rec.a], den[Rec.b])
           IN Mat(MpoOf(Rec.T)) = want /\ Put(Rec.r, want)
TApply == /\ Rec.ev = "apply" /\ Has(Rec.a) /\ Has(Rec.b)
          /\ LET want == MVec(den[Rec.a], den[Rec.b])
             IN Vec(MpsOf(Rec.T)) = want /\ Put(Rec.r, want)
TIdentity == /\ Rec.ev = "identity"
             \* `scale` multiplies every site tensor (as the code is; the docstring does not define it): scale^L * 1
             /\ LET sc[k \in 0..Rec.L] == IF k = 0 THEN GOne ELSE GMul(sc[k-1], G2(Rec.scale))
                    want == MId(PowN(Rec.d, Rec.L), sc[Rec.L])
                    got == Mat(MpoOf(Rec.T))
                IN IF Strict \/ G2(Rec.scale) = GOne
                   THEN got = want /\ Put(Rec.r, want)
                   ELSE Put(Rec.r, got)            \* pass 2: whatever multiple of the identity the code chose is the operand from here on
(* the user overwrites one site tensor of a live object in place (here: multiplies it by an integer): by multilinearity the  *)
(* dense meaning is multiplied as well; every later operation must see the new tensors (nothing may be cached on the object) *)
TPoke == /\ Rec.ev = "poke" /\ Has(Rec.a)
         /\ Put(Rec.a, IF Rec.cls = "mps" THEN VScale(GInt(Rec.c), den[Rec.a]) ELSE MScale(GInt(Rec.c), den[Rec.a]))
(* as_vector / as_matrix (dense and sparse) return the dense meaning *)
TDenseVec == /\ Rec.ev = "dense_vec" /\ Has(Rec.a) /\ T1(Rec.v) = den[Rec.a] /\ den' = den
TDenseMat == /\ Rec.ev = "dense_mat" /\ Has(Rec.a) /\ T2(Rec.m) = den[Rec.a] /\ den' = den

(* ---------------------------------------------------------------- C04 *)
TVdot == /\ Rec.ev = "vdot" /\ Has(Rec.a) /\ Has(Rec.b)
         /\ G2(Rec.val) = VDot(den[Rec.a], den[Rec.b]) /\ den' = den
TAvg == /\ Rec.ev = "oip" /\ Has(Rec.chi) /\ Has(Rec.op) /\ Has(Rec.psi)
        /\ G2(Rec.val) = VDot(den[Rec.chi], MVec(den[Rec.op], den[Rec.psi])) /\ den' = den
TOda == /\ Rec.ev = "oda" /\ Has(Rec.rho) /\ Has(Rec.op)
        /\ G2(Rec.val) = MTrace(GMatMul(den[Rec.op], den[Rec.rho])) /\ den' = den

(* environment blocks and local operators: self-contained records *)
Rbase == <<<<<<GOne>>>>>>
RightBlocks(As, Bs, Ws) ==      \* BR[i] for i = 1..n, BR[n] = 1
    LET n == Len(As)
        F[k \in 0..(n-1)] == IF k = 0 THEN Rbase ELSE StepRight(As[n - k + 1], Bs[n - k + 1], Ws[n - k + 1], F[k-1])
    IN [i \in 1..n |-> F[n - i]]
LeftBlocks(As, Bs, Ws) ==       \* BL[i] for i = 1..n, BL[1] = 1
    LET n == Len(As)
        F[k \in 1..n] == IF k = 1 THEN Rbase ELSE StepLeft(As[k-1], Bs[k-1], Ws[k-1], F[k-1])
    IN F
B3(J) == T3(J)      \* a block has three indices as well

TBlocks == /\ Rec.ev = "right_blocks"
           /\ LET As == MpsOf(Rec.psi)  Ws == MpoOf(Rec.op)
                  want == RightBlocks(As, As, Ws)
              IN /\ Len(Rec.blocks) = Len(As)
                 /\ \A i \in 1..Len(As) : B3(Rec.blocks[i]) = want[i]
           /\ den' = den
TStepLR == /\ Rec.ev \in {"step_left", "step_right"}
           /\ LET A == T3(Rec.A)  B == T3(Rec.B)  W == T4(Rec.W)  X == B3(Rec.X)
              IN B3(Rec.out) = (IF Rec.ev = "step_left" THEN StepLeft(A, B, W, X) ELSE StepRight(A, B, W, X))
           /\ den' = den
(* contraction_step_left/right without operator: R[a][b] ; out[a][b] *)
TStep2 == /\ Rec.ev \in {"cstep_left", "cstep_right"}
          /\ LET A == T3(Rec.A)  B == T3(Rec.B)  X == T2(Rec.X)
             IN T2(Rec.out) =
                 IF Rec.ev = "cstep_right"
                 THEN [a \in 1..BondL(A) |-> [b \in 1..BondL(B) |->
                         GSum(Len(A), LAMBDA s : GSum(BondR(A), LAMBDA a2 : GSum(BondR(B), LAMBDA b2 :
                            GMul(GMul(A[s][a][a2], GConj(B[s][b][b2])), X[a2][b2]))))]]
                 ELSE [a2 \in 1..BondR(A) |-> [b2 \in 1..BondR(B) |->
                         GSum(Len(A), LAMBDA s : GSum(BondL(A), LAMBDA a : GSum(BondL(B), LAMBDA b :
                            GMul(GMul(A[s][a][a2], GConj(B[s][b][b2])), X[a][b]))))]]
          /\ den' = den

(* effective one-site Hamiltonian at site i: the code's result equals the index sum, and it is the projection of    *)
(* the full operator:  <Bt| Heff |At> = <Psi(Bt)| Mat(H) |Psi(At)>  (Psi(X): the state with site tensor X at i)      *)
Replace(As, i, X) == [k \in DOMAIN As |-> IF k = i THEN X ELSE As[k]]
THeff == /\ Rec.ev = "heff"
         /\ LET As == MpsOf(Rec.psi)  Ws == MpoOf(Rec.op)  i == Rec.site
                At == T3(Rec.At)  Bt == T3(Rec.Bt)
                Lb == LeftBlocks(As, As, Ws)[i]
                Rb == RightBlocks(As, As, Ws)[i]
                out == ApplyHeff(Lb, Rb, Ws[i], At)
                H == Mat(Ws)
                lhs == TDot3(Bt, out)
                rhs == VDot(Vec(Replace(As, i, Bt)), MVec(H, Vec(Replace(As, i, At))))
                back == VDot(Vec(Replace(As, i, At)), MVec(H, Vec(Replace(As, i, Bt))))
            IN /\ T3(Rec.out) = out                                \* apply_local_hamiltonian on the code's own blocks
               /\ lhs = rhs                                          \* projection identity
               /\ MIsHermitian(H) => lhs = GConj(back)               \* Heff Hermitian whenever the MPO is
               /\ Rec.hermitian = MIsHermitian(H)
         /\ den' = den
(* two-site effective Hamiltonian on sites i, i+1 (merged tensors as in the two-site algorithms) *)
THeff2 == /\ Rec.ev = "heff2"
          /\ LET As == MpsOf(Rec.psi)  Ws == MpoOf(Rec.op)  i == Rec.site
                 Lb == LeftBlocks(As, As, Ws)[i]
                 Rb == RightBlocks(As, As, Ws)[i + 1]
                 Wm == MergeMPO2(Ws[i], Ws[i + 1])
                 Am == MergeMPS2(T3(Rec.At0), T3(Rec.At1))
             IN /\ T4(Rec.Wm) = Wm /\ T3(Rec.Am) = Am              \* merge_mpo_tensor_pair / merge_mps_tensor_pair
                /\ T3(Rec.out) = ApplyHeff(Lb, Rb, Wm, Am)
          /\ den' = den
(* zero-site bond operator between sites i and i+1 *)
TKeff == /\ Rec.ev = "keff"
         /\ LET As == MpsOf(Rec.psi)  Ws == MpoOf(Rec.op)  i == Rec.site
                Lb == LeftBlocks(As, As, Ws)[i + 1]
                Rb == RightBlocks(As, As, Ws)[i]
            IN T2(Rec.out) = ApplyKeff(Lb, Rb, T2(Rec.C))
         /\ den' = den

(* clauses decided numerically by the harness (mode N), e.g. dense = sparse form for operators of tiny / huge magnitude *)
(* a flag whose record says `foreign` states a clause of another property (C19: arguments unchanged): strict-only here *)
IsForeign == "foreign" \in DOMAIN Rec /\ Rec.foreign
TFlag == /\ Rec.ev = "flag" /\ (Rec.ok \/ (~Strict /\ IsForeign)) /\ den' = den

TAny == TFlag \/ TPoke \/ TNewMps \/ TNewMpo \/ TAddMps \/ TAddMpo \/ TMul \/ TApply \/ TIdentity \/ TDenseVec \/ TDenseMat
        \/ TVdot \/ TAvg \/ TOda \/ TBlocks \/ TStepLR \/ TStep2 \/ THeff \/ THeff2 \/ TKeff
TStep == HasRec /\ TAny /\ Advance
TNextTrace == /\ tid <= Len(Tr) /\ l > Len(Tr[tid])
              /\ TLCSet(1, TLCGet(1) \cup {tid})
              /\ tid' = tid + 1 /\ l' = 1 /\ den' = <<>>
Diagnose ==
    IF Rec.ev = "raise" THEN Rec.exc
    ELSE IF Rec.ev \in {"add_mps", "add_mpo"} THEN "dense form of the sum / difference differs from the sum of the dense operands"
    ELSE IF Rec.ev = "mul" THEN "dense form of A @ B differs from Mat(A) . Mat(B)"
    ELSE IF Rec.ev = "apply" THEN "dense form of A|psi> differs from Mat(A) . Vec(psi)"
    ELSE IF Rec.ev = "identity" THEN (IF G2(Rec.scale) = GOne THEN "identity MPO is not the identity" ELSE "spec: identity MPO is not scale^L * identity")
    ELSE IF Rec.ev \in {"dense_vec", "dense_mat"} THEN "as_vector / as_matrix (dense or sparse) differs from the index-sum contraction"
    ELSE IF Rec.ev = "vdot" THEN "vdot differs from the dense inner product (first argument conjugated)"
    ELSE IF Rec.ev = "oip" THEN "operator_average / operator_inner_product differs from the dense matrix element"
    ELSE IF Rec.ev = "oda" THEN "operator_density_average differs from tr[op rho]"
    ELSE IF Rec.ev = "right_blocks" THEN "compute_right_operator_blocks differs from the index-sum recursion"
    ELSE IF Rec.ev \in {"step_left", "step_right", "cstep_left", "cstep_right"} THEN "transfer contraction step differs from the index sum"
    ELSE IF Rec.ev = "heff" THEN "apply_local_hamiltonian: index sum / projection identity / Hermiticity"
    ELSE IF Rec.ev = "heff2" THEN "two-site local Hamiltonian: merged tensors or index sum differ"
    ELSE IF Rec.ev = "flag" THEN (IF IsForeign THEN "spec: (clause of another property) " ELSE "") \o Rec.what
    ELSE IF Rec.ev = "keff" THEN "apply_local_bond_contraction differs from the index sum"
    ELSE "unexpected event"
TReject == /\ HasRec /\ ~ENABLED TStep
           /\ PrintT(<<"REJECT", tid, l, Rec.ev, Diagnose>>)
           /\ tid' = tid + 1 /\ l' = 1 /\ den' = <<>>
TraceNext == TStep \/ TNextTrace \/ TReject
TraceSpec == TraceInit /\ [][TraceNext]_tvars
ASSUME TLCSet(1, {})
TraceDone == PrintT(<<"DONE", TLCGet(1)>>) /\ TLCGet("stats").diameter >= 1
=============================================================================
