------------------------------ MODULE OpChains ------------------------------
(* The operator-chain compiler OpGraph.from_opchains as it is, one action   *)
(* per stage of each site iteration:                                        *)
(*   AddChain   (build phase) the input program is put together chain by    *)
(*              chain, so that the model has one initial state              *)
(*   Compile    padding, zero-coefficient filter, initial half-chains       *)
(*   Partition  _site_partition_halfchains: U nodes, V nodes, edges, gamma  *)
(*   ChooseCover  ANY minimum vertex cover (Hopcroft-Karp/Koenig picks one) *)
(*   Emit       new nodes / edges for the cover, complementary operators,   *)
(*              half-chains and coefficients for the next site              *)
(*   Finish     the trailing coefficient is put on the edges entering the   *)
(*              terminal node (LegacyFinish = TRUE: the pinned code, which  *)
(*              asserted that coefficient to be 1 - finding F1)             *)
(* The anchored state is (G, hc, co) = graph so far, vlist_next,            *)
(* coeffs_next.  DenPreserved: its meaning StatePoly never changes.         *)
EXTENDS OpChainsOps, TLC

CONSTANTS L, OIDS, IdOid, COEFS, QS, MaxChains,
          LegacyFinish,     \* TRUE: final assertion coeffs_next[0] == 1.0 as in the pinned code (negative control, F1)
          AnyCover          \* TRUE: ChooseCover may take any vertex cover (negative control for the width bound, C20)

VARIABLES chains, G, hc, co, site, pc, part, cover, nn, en
vars == <<chains, G, hc, co, site, pc, part, cover, nn, en>>

NoPart == [us |-> <<>>, vs |-> <<>>, E |-> {}, gamma |-> <<>>]
NoCover == [u |-> {}, v |-> {}]
StartGraph == [nodes |-> (0 :> [q |-> 0, ein |-> {}, eout |-> {}]) @@ (-1 :> [q |-> 0, ein |-> {}, eout |-> {}]),
               edges |-> <<>>, term |-> <<0, -1>>]

(* chains of the universe: boundary charges zero (precondition of the code: one start and one end node) *)
ChainSet ==
    UNION {UNION {{[oids |-> w, qnums |-> <<0>> \o q \o <<0>>, coeff |-> c, istart |-> s] :
                      w \in [1..n -> OIDS], q \in [1..(n-1) -> QS], c \in COEFS} :
                  s \in 0..(L - n)} : n \in 1..L}

ChainLE(a, b) == \/ a.istart < b.istart
                 \/ a.istart = b.istart /\ Len(a.oids) < Len(b.oids)
                 \/ a.istart = b.istart /\ Len(a.oids) = Len(b.oids) /\ a.coeff <= b.coeff

Init == /\ chains = <<>> /\ G = StartGraph /\ hc = <<>> /\ co = <<>> /\ site = 0 /\ pc = "build"
        /\ part = NoPart /\ cover = NoCover /\ nn = 1 /\ en = 0

AddChain(c) ==
    /\ pc = "build" /\ Len(chains) < MaxChains
    /\ Len(chains) > 0 => ChainLE(chains[Len(chains)], c)
    /\ chains' = Append(chains, c)
    /\ UNCHANGED <<G, hc, co, site, pc, part, cover, nn, en>>

(* from_opchains entry: requires a chain with non-zero coefficient (the property's precondition) *)
Compile ==
    /\ pc = "build" /\ NonZero(chains) # <<>>
    /\ LET nz == NonZero(chains)
       IN /\ hc' = [k \in DOMAIN nz |-> InitHalf(nz[k], L, IdOid, 0)]
          /\ co' = [k \in DOMAIN nz |-> nz[k].coeff]
    /\ site' = 1 /\ pc' = "partition"
    /\ UNCHANGED <<chains, G, part, cover, nn, en>>

Partition ==
    /\ pc = "partition" /\ site <= L
    /\ part' = PartitionOf(hc, co)
    /\ pc' = "cover"
    /\ UNCHANGED <<chains, G, hc, co, site, cover, nn, en>>

ChooseCover(cu, cv) ==
    /\ pc = "cover"
    /\ IF AnyCover THEN cu \subseteq Uidx(part) /\ cv \subseteq Vidx(part) /\ IsCover(part.E, cu, cv)
                   ELSE IsMinCover(part.E, Uidx(part), Vidx(part), cu, cv)
    /\ cover' = [u |-> cu, v |-> cv]
    /\ pc' = "emit"
    /\ UNCHANGED <<chains, G, hc, co, site, part, nn, en>>

(* opgraph.py:302-321: one U vertex of the cover *)
EmitU(st, i) ==
    LET u    == part.us[i + 1]
        nbrs == SortedSeqOf({e[2] : e \in {f \in st.E : f[1] = i}})
        G1   == WithNode(st.G, st.nn, u[3])
        G2   == WithEdge(G1, st.en, u[4], st.nn, {<<u[1], 1>>})
    IN [G |-> G2,
        hc |-> st.hc \o [k \in 1..Len(nbrs) |-> [oids |-> part.vs[nbrs[k] + 1][1], qnums |-> part.vs[nbrs[k] + 1][2], nidl |-> st.nn]],
        co |-> st.co \o [k \in 1..Len(nbrs) |-> part.gamma[<<i, nbrs[k]>>]],
        E  |-> {f \in st.E : f[1] # i},
        nn |-> st.nn + 1, en |-> st.en + 1,
        ok |-> st.ok /\ st.G.nodes[u[4]].q = u[2]]

(* opgraph.py:323-346: one V vertex of the cover, with its complementary operators *)
RECURSIVE CompEdges(_, _, _, _)
CompEdges(g, en0, node, us) ==       \* us: sequence of <<i, gamma>> still to be connected to `node`
    IF us = <<>> THEN [G |-> g, en |-> en0]
    ELSE LET i == Head(us)[1]
             u == part.us[i + 1]
         IN CompEdges(WithEdge(g, en0, u[4], node, {<<u[1], Head(us)[2]>>}), en0 + 1, node, Tail(us))

EmitV(st, j) ==
    LET v    == part.vs[j + 1]
        G1   == WithNode(st.G, st.nn, v[2][1])
        nbrs == SortedSeqOf({e[1] : e \in {f \in st.E : f[2] = j}})
        r    == CompEdges(G1, st.en, st.nn, [k \in 1..Len(nbrs) |-> <<nbrs[k], part.gamma[<<nbrs[k], j>>]>>])
    IN [G |-> r.G,
        hc |-> Append(st.hc, [oids |-> v[1], qnums |-> v[2], nidl |-> st.nn]),
        co |-> Append(st.co, 1),
        E  |-> {f \in st.E : f[2] # j},
        nn |-> st.nn + 1, en |-> r.en,
        ok |-> st.ok /\ \A k \in 1..Len(nbrs) :
                    /\ part.us[nbrs[k] + 1][3] = v[2][1]
                    /\ st.G.nodes[part.us[nbrs[k] + 1][4]].q = part.us[nbrs[k] + 1][2]]

RECURSIVE FoldEmit(_, _, _)
FoldEmit(st, idxs, isU) ==
    IF idxs = <<>> THEN st
    ELSE FoldEmit(IF isU THEN EmitU(st, Head(idxs)) ELSE EmitV(st, Head(idxs)), Tail(idxs), isU)

Emit ==
    /\ pc = "emit"
    /\ LET st0 == [G |-> G, hc |-> <<>>, co |-> <<>>, E |-> part.E, nn |-> nn, en |-> en, ok |-> TRUE]
           st1 == FoldEmit(st0, SortedSeqOf(cover.u), TRUE)
           st2 == FoldEmit(st1, SortedSeqOf(cover.v), FALSE)
       IN IF st2.ok /\ st2.E = {}
          THEN /\ G' = st2.G /\ hc' = st2.hc /\ co' = st2.co /\ nn' = st2.nn /\ en' = st2.en
               /\ site' = site + 1
               /\ pc' = IF site = L THEN "finish" ELSE "partition"
          ELSE /\ pc' = "raised" /\ UNCHANGED <<G, hc, co, nn, en, site>>      \* an assert of the code fails
    /\ UNCHANGED <<chains, part, cover>>

ScaleInEdges(g, n, c) ==
    [g EXCEPT !.edges = [e \in DOMAIN g.edges |->
                           IF e \in g.nodes[n].ein THEN [g.edges[e] EXCEPT !.ops = {<<t[1], t[2] * c>> : t \in @}]
                           ELSE g.edges[e]]]
DropNode(g, n) == [g EXCEPT !.nodes = [m \in DOMAIN g.nodes \ {n} |-> g.nodes[m]]]

Finish ==
    /\ pc = "finish"
    /\ IF Len(hc) # 1 \/ (LegacyFinish /\ co[1] # 1)
       THEN pc' = "raised" /\ UNCHANGED <<G, hc, co>>
       ELSE /\ G' = [DropNode(IF co[1] # 1 THEN ScaleInEdges(G, hc[1].nidl, co[1]) ELSE G, -1)
                       EXCEPT !.term = <<0, hc[1].nidl>>]
            /\ hc' = <<>> /\ co' = <<>>
            /\ pc' = "done"
    /\ UNCHANGED <<chains, site, part, cover, nn, en>>

Next == \/ \E c \in ChainSet : AddChain(c)
        \/ Compile \/ Partition
        \/ (pc = "cover" /\ \E cu \in SUBSET Uidx(part), cv \in SUBSET Vidx(part) : ChooseCover(cu, cv))
        \/ Emit \/ Finish

Spec == Init /\ [][Next]_vars

----------------------------------------------------------------------------
Target == ChainsPoly(chains, L, IdOid)

(* C05: the meaning of the compiler state never changes ... *)
DenPreserved ==
    /\ pc \in {"partition", "cover", "emit", "finish"} => StatePoly(G, hc, co) = Target
    /\ pc = "done" => Den(G) = Target
(* ... construction succeeds for every chain list with a non-zero coefficient (F1 under LegacyFinish) ... *)
NeverRaised == pc # "raised"
(* ... and yields a consistent graph of the requested length *)
ResultOK == pc = "done" => (ConsistentG(G) /\ UniqueOids(G) /\ GraphLength(G) = L /\ AllConnected(G))
(* MPO.from_opgraph preserves the operator: multiplying out the symbolic layer tensors gives Den(G) *)
MpoOK == pc = "done" => MpoPoly(G) = Den(G)
(* the partition computed in the model satisfies the contract used for the logged one *)
PartitionOK == pc \in {"cover", "emit"} => IsPartition(part, hc, co)
(* C20: with minimum covers no cut is wider than the number of chains with non-zero coefficient *)
WidthBound ==
    pc \in {"partition", "finish", "done"} /\ site >= 2 =>
        Cardinality({hc[k].nidl : k \in DOMAIN hc} \cup (IF pc = "done" THEN {G.term[2]} ELSE {})) <= Len(NonZero(chains))
WidthBoundDone == pc = "done" => \A lev \in 0..L : Width(G, lev) <= Len(NonZero(chains))
=============================================================================
