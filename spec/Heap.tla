-------------------------------- MODULE Heap --------------------------------
(* Ownership / aliasing rules of the public operations of pytenet (C19).     *)
(* User-visible objects (MPS, MPO, OpGraph) own mutable buffers (NumPy base  *)
(* arrays of tensors and quantum-number lists, node / edge records).  Every  *)
(* public operation is catalogued with its declared effect:                  *)
(*   pure     returns a number or a dense array; nothing changes             *)
(*   fresh    returns a new object built from fresh buffers only             *)
(*   inplace  overwrites exactly the documented target                       *)
(* Poke(o) is an arbitrary later in-place change of object o by the user.    *)
(* NoSharing: distinct objects have disjoint buffer sets.                    *)
(* Frozen:    a step changes digests only of buffers of its target.          *)
(* AliasBug = TRUE lets a fresh result keep one buffer of an operand (a      *)
(* dropped .copy()): negative control, NoSharing / Frozen must fail.         *)
EXTENDS Integers, FiniteSets, TLC

CONSTANTS NOBJ, NBUF, AliasBug
Obj == 1..NOBJ
Buf == 1..NBUF

VARIABLES live, bufs, dig, last
vars == <<live, bufs, dig, last>>

Used == UNION {bufs[o] : o \in live}
Init == /\ live = {1} /\ bufs = [o \in Obj |-> IF o = 1 THEN {1, 2} ELSE {}]
        /\ dig = [b \in Buf |-> 0] /\ last = [op |-> "init", target |-> 0, operands |-> {}]

Pure(args) == /\ args \subseteq live /\ args # {}
              /\ last' = [op |-> "pure", target |-> 0, operands |-> args]
              /\ UNCHANGED <<live, bufs, dig>>

Fresh(args, r, nb) ==
    /\ args \subseteq live /\ r \in Obj \ live
    /\ nb \subseteq Buf \ Used /\ nb # {}
    /\ live' = live \cup {r}
    /\ bufs' = [bufs EXCEPT ![r] = IF AliasBug /\ args # {} THEN nb \cup {CHOOSE b \in bufs[CHOOSE a \in args : TRUE] : TRUE} ELSE nb]
    /\ dig' = [b \in Buf |-> IF b \in nb THEN 1 ELSE dig[b]]
    /\ last' = [op |-> "fresh", target |-> r, operands |-> args]

InPlace(t, args) ==
    /\ t \in live /\ args \subseteq live \ {t}
    /\ \E ch \in SUBSET bufs[t] : dig' = [b \in Buf |-> IF b \in ch THEN dig[b] + 1 ELSE dig[b]]
    /\ last' = [op |-> "inplace", target |-> t, operands |-> args]
    /\ UNCHANGED <<live, bufs>>

Poke(o) == /\ o \in live
           /\ \E ch \in (SUBSET bufs[o]) \ {{}} : dig' = [b \in Buf |-> IF b \in ch THEN dig[b] + 1 ELSE dig[b]]
           /\ last' = [op |-> "poke", target |-> o, operands |-> {}]
           /\ UNCHANGED <<live, bufs>>

Next == \/ \E args \in SUBSET live : Pure(args)
        \/ \E args \in SUBSET live, r \in Obj, nb \in SUBSET Buf : Cardinality(nb) <= 2 /\ Fresh(args, r, nb)
        \/ \E t \in live, args \in SUBSET live : InPlace(t, args)
        \/ \E o \in live : Poke(o)
Spec == Init /\ [][Next]_vars

NoSharing == \A a, b \in live : a # b => bufs[a] \cap bufs[b] = {}
(* digests of buffers owned by objects other than the target never change *)
Frozen == [][\A o \in live : (o # last'.target) => \A b \in bufs[o] : dig'[b] = dig[b]]_vars
DigBound == \A b \in Buf : dig[b] <= 3
=============================================================================
