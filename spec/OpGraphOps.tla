----------------------------- MODULE OpGraphOps -----------------------------
(* Pure operators for the rewrites of operator graphs (pytenet/opgraph.py): *)
(* guards and results of merge_edges, the pairs _simplify_step may pick,    *)
(* renames, flip, the union step of add, and the tree-expanded term graphs  *)
(* used as a universe of inputs.  Shared by OpGraph.tla, TraceOpGraph.tla   *)
(* and Unfold.tla.                                                          *)
EXTENDS GraphOps, TLC


----------------------------------------------------------------------------
(* the rewrite operators, shared with the trace specification *)
Base(G, e, dir) == IF dir = 0 THEN G.edges[e].src ELSE G.edges[e].dst
Far(G, e, dir)  == IF dir = 0 THEN G.edges[e].dst ELSE G.edges[e].src
Toward(G, n, dir) == IF dir = 0 THEN G.nodes[n].ein ELSE G.nodes[n].eout     \* node.eids[direction]
Away(G, n, dir)   == IF dir = 0 THEN G.nodes[n].eout ELSE G.nodes[n].ein     \* node.eids[1-direction]

SetAway(nd, dir, S)   == IF dir = 0 THEN [nd EXCEPT !.eout = S] ELSE [nd EXCEPT !.ein = S]
SetToward(nd, dir, S) == IF dir = 0 THEN [nd EXCEPT !.ein = S] ELSE [nd EXCEPT !.eout = S]
SetBase(ed, dir, n)   == IF dir = 0 THEN [ed EXCEPT !.src = n] ELSE [ed EXCEPT !.dst = n]

(* guards of merge_edges: the asserts of opgraph.py:456-486 *)
CanMerge(G, e1, e2, dir) ==
    /\ e1 \in EdgeIds(G) /\ e2 \in EdgeIds(G) /\ e1 # e2 /\ dir \in {0, 1}
    /\ Base(G, e1, dir) = Base(G, e2, dir)
    /\ \/ Far(G, e1, dir) = Far(G, e2, dir)
       \/ /\ G.edges[e1].ops = G.edges[e2].ops
          /\ Cardinality(Toward(G, Far(G, e1, dir), dir)) = 1
          /\ Cardinality(Toward(G, Far(G, e2, dir), dir)) = 1
          /\ G.nodes[Far(G, e1, dir)].q = G.nodes[Far(G, e2, dir)].q

MergeEdges(G, e1, e2, dir) ==
    LET b  == Base(G, e2, dir)
        f1 == Far(G, e1, dir)
        f2 == Far(G, e2, dir)
        edgesLeft == RestrictTo(G.edges, EdgeIds(G) \ {e2})
    IN IF f1 = f2
       THEN [G EXCEPT !.edges = [edgesLeft EXCEPT ![e1].ops = OpsAdd(G.edges[e1].ops, G.edges[e2].ops)],
                      !.nodes = [n \in NodeIds(G) |->
                                   LET nd0 == G.nodes[n]
                                       nd1 == IF n = b THEN SetAway(nd0, dir, Away(G, n, dir) \ {e2}) ELSE nd0
                                       nd2 == IF n = f2 THEN SetToward(nd1, dir, (IF dir = 0 THEN nd1.ein ELSE nd1.eout) \ {e2}) ELSE nd1
                                   IN nd2]]
       ELSE [G EXCEPT !.edges = [e \in EdgeIds(G) \ {e2} |->
                                   IF e \in Away(G, f2, dir) THEN SetBase(G.edges[e], dir, f1) ELSE G.edges[e]],
                      !.nodes = [n \in NodeIds(G) \ {f2} |->
                                   IF n = b THEN SetAway(G.nodes[n], dir, Away(G, n, dir) \ {e2})
                                   ELSE IF n = f1 THEN SetAway(G.nodes[n], dir, Away(G, f1, dir) \cup Away(G, f2, dir))
                                   ELSE G.nodes[n]]]

(* the pairs _simplify_step(dir) is allowed to pick (it takes the first one it meets on its sweep) *)
Mergeable(G, e1, e2, dir) ==
    /\ e1 \in EdgeIds(G) /\ e2 \in EdgeIds(G) /\ e1 # e2
    /\ Base(G, e1, dir) = Base(G, e2, dir)
    /\ \/ Far(G, e1, dir) = Far(G, e2, dir)
       \/ /\ G.edges[e1].ops = G.edges[e2].ops
          /\ Cardinality(Toward(G, Far(G, e1, dir), dir)) = 1
          /\ Cardinality(Toward(G, Far(G, e2, dir), dir)) = 1
          /\ G.nodes[Far(G, e1, dir)].q = G.nodes[Far(G, e2, dir)].q

MergeablePairs(G, dir) == {p \in EdgeIds(G) \X EdgeIds(G) : Mergeable(G, p[1], p[2], dir)}
Simplified(G) == MergeablePairs(G, 0) = {} /\ MergeablePairs(G, 1) = {}

RenameNode(G, a, b) ==
    [G EXCEPT !.nodes = [n \in (NodeIds(G) \ {a}) \cup {b} |-> IF n = b THEN G.nodes[a] ELSE G.nodes[n]],
              !.edges = [e \in EdgeIds(G) |->
                           [G.edges[e] EXCEPT !.src = IF @ = a THEN b ELSE @, !.dst = IF @ = a THEN b ELSE @]],
              !.term = <<IF G.term[1] = a THEN b ELSE G.term[1], IF G.term[2] = a THEN b ELSE G.term[2]>>]

RenameEdge(G, a, b) ==
    LET sub(S) == IF a \in S THEN (S \ {a}) \cup {b} ELSE S
    IN [G EXCEPT !.edges = [e \in (EdgeIds(G) \ {a}) \cup {b} |-> IF e = b THEN G.edges[a] ELSE G.edges[e]],
                 !.nodes = [n \in NodeIds(G) |-> [G.nodes[n] EXCEPT !.ein = sub(@), !.eout = sub(@)]]]

FlipGraph(G) ==
    [nodes |-> [n \in NodeIds(G) |-> [q |-> G.nodes[n].q, ein |-> G.nodes[n].eout, eout |-> G.nodes[n].ein]],
     edges |-> [e \in EdgeIds(G) |-> [src |-> G.edges[e].dst, dst |-> G.edges[e].src, ops |-> G.edges[e].ops]],
     term  |-> <<G.term[2], G.term[1]>>]

MaxOf(S, dflt) == IF S = {} THEN dflt ELSE Max(S)

(* OpGraph.add before its final simplify(): opgraph.py:606-632.  H is the other graph.  Shared ids of H are    *)
(* renamed to fresh consecutive ids in the iteration order of a Python set, which the model leaves open: ordN /   *)
(* ordE are any enumerations of the shared node / edge ids.                                                      *)
RECURSIVE RenameNodesSeq(_, _, _)
RenameNodesSeq(H, ids, next) ==
    IF ids = <<>> THEN H ELSE RenameNodesSeq(RenameNode(H, Head(ids), next), Tail(ids), next + 1)
RECURSIVE RenameEdgesSeq(_, _, _)
RenameEdgesSeq(H, ids, next) ==
    IF ids = <<>> THEN H ELSE RenameEdgesSeq(RenameEdge(H, Head(ids), next), Tail(ids), next + 1)

SharedNodes(G, H) == NodeIds(G) \cap NodeIds(H)
SharedEdges(G, H) == EdgeIds(G) \cap EdgeIds(H)
IsEnumOf(s, S) == Len(s) = Cardinality(S) /\ {s[i] : i \in 1..Len(s)} = S

AddUnionOrd(G, H, ordN, ordE) ==
    LET nextN   == Max(NodeIds(G) \cup NodeIds(H)) + 1
        H1 == RenameNodesSeq(H, ordN, nextN)
        nextE   == MaxOf(EdgeIds(G) \cup EdgeIds(H1) \cup {0}, 0) + 1
        H2 == RenameEdgesSeq(H1, ordE, nextE)
        H3 == RenameNode(H2, H2.term[1], G.term[1])
        H4 == RenameNode(H3, H3.term[2], G.term[2])
        inner == NodeIds(H4) \ {G.term[1], G.term[2]}
    IN [nodes |-> [n \in NodeIds(G) \cup inner |->
                      IF n = G.term[1] THEN [G.nodes[n] EXCEPT !.eout = @ \cup H4.nodes[n].eout]
                      ELSE IF n = G.term[2] THEN [G.nodes[n] EXCEPT !.ein = @ \cup H4.nodes[n].ein]
                      ELSE IF n \in inner THEN H4.nodes[n] ELSE G.nodes[n]],
        edges |-> [e \in EdgeIds(G) \cup EdgeIds(H4) |-> IF e \in EdgeIds(H4) THEN H4.edges[e] ELSE G.edges[e]],
        term  |-> G.term]

AddUnion(G, H) == AddUnionOrd(G, H, SortedSeqOf(SharedNodes(G, H)), SortedSeqOf(SharedEdges(G, H)))

(* OpGraph._insert_opchain(nid_start, nid_end, oids, coeffs, qnums, direction): an alternating sequence of fresh edges  *)
(* and fresh nodes (ids max+1, max+2, ...; edge ids start at max(default 0)+1) from nid_start to the EXISTING node      *)
(* nid_end; direction 1: edges point start -> end, direction 0: edges point towards the start node.                    *)
RECURSIVE InsertChainFrom(_, _, _, _, _, _, _, _)
InsertChainFrom(G, cur, b, oids, coeffs, qs, dir, k) ==
    LET n == Len(oids)
        e == MaxOf(EdgeIds(G) \cup {0}, 0) + 1
        mk(g, eid, x, y, ops) == [g EXCEPT !.edges = [d \in EdgeIds(g) \cup {eid} |-> IF d = eid THEN [src |-> x, dst |-> y, ops |-> ops] ELSE g.edges[d]],
                                           !.nodes = [m \in NodeIds(g) |->
                                                        LET r1 == IF m = x THEN [g.nodes[m] EXCEPT !.eout = @ \cup {eid}] ELSE g.nodes[m]
                                                        IN IF m = y THEN [r1 EXCEPT !.ein = @ \cup {eid}] ELSE r1]]
    IN IF k = n
       THEN IF dir = 1 THEN mk(G, e, cur, b, {<<oids[k], coeffs[k]>>}) ELSE mk(G, e, b, cur, {<<oids[k], coeffs[k]>>})
       ELSE LET m == Max(NodeIds(G)) + 1
                G1 == [G EXCEPT !.nodes = [x \in NodeIds(G) \cup {m} |-> IF x = m THEN [q |-> qs[k], ein |-> {}, eout |-> {}] ELSE G.nodes[x]]]
                G2 == IF dir = 1 THEN mk(G1, e, cur, m, {<<oids[k], coeffs[k]>>}) ELSE mk(G1, e, m, cur, {<<oids[k], coeffs[k]>>})
            IN InsertChainFrom(G2, m, b, oids, coeffs, qs, dir, k + 1)
InsertChain(G, a, b, oids, coeffs, qs, dir) == InsertChainFrom(G, a, b, oids, coeffs, qs, dir, 1)
(* the polynomial of the inserted chain (in graph direction 1 reading order) *)
ChainWordPoly(oids, coeffs, dir) ==
    LET n == Len(oids)
        w == IF dir = 1 THEN oids ELSE [i \in 1..n |-> oids[n + 1 - i]]
        c == LET F[k \in 0..n] == IF k = 0 THEN 1 ELSE F[k-1] * coeffs[k] IN F[n]
    IN PolyTerm(w, c)
PathsToNode(G, n) == DenBack(G, n, Cardinality(NodeIds(G)) + 1)
PathsFromNode(G, n) == DenFrom(G, n, Cardinality(NodeIds(G)) + 1)

(* precondition of add: both graphs consistent, same length, distinct terminals, charges of the terminals agree *)
CanAdd(G, H) == /\ ConsistentG(G) /\ ConsistentG(H)
                /\ GraphLength(G) = GraphLength(H)
                /\ G.term[1] # G.term[2] /\ H.term[1] # H.term[2]

----------------------------------------------------------------------------
(* construction of the initial graphs: one path per term ("tree expansion"), sharing only the terminals *)
\* a term is a record [w : word of length L, c : coefficient, q : sequence of L-1 node charges]
TermNode(L, t, j) == IF j = 0 THEN 0 ELSE IF j = L THEN 1 ELSE 2 + (t - 1) * (L - 1) + (j - 1)
TermEdge(L, t, j) == (t - 1) * L + j - 1      \* j in 1..L

TermGraph(L, terms) ==
    LET T == 1..Len(terms)
        inner == {<<t, j>> : t \in T, j \in 1..(L-1)}
        nid(tj) == TermNode(L, tj[1], tj[2])
        eset == {<<t, j>> : t \in T, j \in 1..L}
    IN [nodes |-> [n \in {0, 1} \cup {nid(tj) : tj \in inner} |->
                     IF n = 0 THEN [q |-> 0, ein |-> {}, eout |-> {TermEdge(L, t, 1) : t \in T}]
                     ELSE IF n = 1 THEN [q |-> 0, ein |-> {TermEdge(L, t, L) : t \in T}, eout |-> {}]
                     ELSE LET tj == CHOOSE x \in inner : nid(x) = n
                          IN [q |-> terms[tj[1]].q[tj[2]], ein |-> {TermEdge(L, tj[1], tj[2])},
                              eout |-> {TermEdge(L, tj[1], tj[2] + 1)}]],
        edges |-> [e \in {TermEdge(L, tj[1], tj[2]) : tj \in eset} |->
                     LET tj == CHOOSE x \in eset : TermEdge(L, x[1], x[2]) = e
                     IN [src |-> TermNode(L, tj[1], tj[2] - 1), dst |-> TermNode(L, tj[1], tj[2]),
                         ops |-> {<<terms[tj[1]].w[tj[2]], IF tj[2] = 1 THEN terms[tj[1]].c ELSE 1>>}]],
        term |-> <<0, 1>>]

TermsPoly(terms) == PolyOfTerms([i \in DOMAIN terms |-> <<terms[i].w, terms[i].c>>])

(* relabel all ids of a graph by injective maps *)
Relabel(G, fn(_), fe(_)) ==
    [nodes |-> [m \in {fn(n) : n \in NodeIds(G)} |->
                  LET n == CHOOSE x \in NodeIds(G) : fn(x) = m
                  IN [q |-> G.nodes[n].q, ein |-> {fe(e) : e \in G.nodes[n].ein}, eout |-> {fe(e) : e \in G.nodes[n].eout}]],
     edges |-> [d \in {fe(e) : e \in EdgeIds(G)} |->
                  LET e == CHOOSE x \in EdgeIds(G) : fe(x) = d
                  IN [src |-> fn(G.edges[e].src), dst |-> fn(G.edges[e].dst), ops |-> G.edges[e].ops]],
     term |-> <<fn(G.term[1]), fn(G.term[2])>>]

=============================================================================
