---------------------------- MODULE TraceCompact ----------------------------
(* C20 (E): the bond dimension of a compiled Hamiltonian MPO at every cut    *)
(* equals the operator Schmidt rank of the dense operator across that cut.   *)
(* One trace = one (model, L); one record per cut:                           *)
(*   cut   bond   the MPO bond dimension at the cut                          *)
(*         mats   the dense operator for >= 3 independent random integer     *)
(*                parameter draws, reshaped across the cut, scaled to        *)
(*                integers, zero rows/columns removed                        *)
(*         rankq  the exact rational ranks computed by the harness           *)
(*         primes the primes used here                                       *)
(* The generic rank is the maximum over the draws.                           *)
EXTENDS RankOps, TLC, Json, IOUtils

Data == JsonDeserialize(IOEnv.TRACE_FILE)
Tr == Data.traces
VARIABLES tid, l
tvars == <<tid, l>>
Rec == Tr[tid][l]
HasRec == tid <= Len(Tr) /\ l <= Len(Tr[tid])
TraceInit == tid = 1 /\ l = 1

RankOf(k) == MaxNat({RankModP(Rec.mats[k], Rec.primes[i]) : i \in DOMAIN Rec.primes})
OracleAgrees == \A k \in DOMAIN Rec.mats : RankOf(k) = Rec.rankq[k]
GenericRank == MaxNat({RankOf(k) : k \in DOMAIN Rec.mats})

TCut == /\ HasRec /\ Rec.ev = "cut"
        /\ OracleAgrees
        /\ Rec.bond = GenericRank
        /\ l' = l + 1 /\ tid' = tid
TNextTrace == /\ tid <= Len(Tr) /\ l > Len(Tr[tid])
              /\ TLCSet(1, TLCGet(1) \cup {tid})
              /\ tid' = tid + 1 /\ l' = 1
TReject == /\ HasRec /\ ~ENABLED TCut
           /\ PrintT(<<"REJECT", tid, l, Rec.ev,
                       IF Rec.ev # "cut" THEN (IF "exc" \in DOMAIN Rec THEN Rec.exc ELSE "unexpected event")
                       ELSE IF ~OracleAgrees THEN "ORACLE: rank mod p differs from the exact rational rank"
                       ELSE IF Rec.bond > GenericRank THEN "bond dimension exceeds the operator Schmidt rank"
                       ELSE "bond dimension below the operator Schmidt rank (dense operator cannot be represented)">>)
           /\ tid' = tid + 1 /\ l' = 1
TraceNext == TCut \/ TNextTrace \/ TReject
TraceSpec == TraceInit /\ [][TraceNext]_tvars
ASSUME TLCSet(1, {})
TraceDone == PrintT(<<"DONE", TLCGet(1)>>) /\ TLCGet("stats").diameter >= 1
=============================================================================
