----------------------------- MODULE Bipartite -----------------------------
(* Hopcroft-Karp maximum matching and the Koenig vertex cover derived from  *)
(* it, as implemented in pytenet/bipartite_graph.py.                        *)
(*                                                                          *)
(* One action per critical section of the code:                             *)
(*   Bfs       __connect_unmatched_vertices: layering; decides whether a    *)
(*             further phase is needed                                      *)
(*   Augment   one successful top-level __add_augmenting_path(u): an        *)
(*             augmenting path of the *current* matching that follows the   *)
(*             layering, i.e. has exactly k U-vertices                      *)
(*   EndPhase  the for-loop over the U-vertices is exhausted                *)
(*   Cover     minimum_vertex_cover: (U \ Z) \cup (V \cap Z)                *)
(* The graph is chosen arbitrarily in Init: every bipartite graph on        *)
(* NU x NV vertices is explored.                                            *)
EXTENDS BipartiteOps, TLC

CONSTANTS NU, NV, BruteForce, MaximalPhases

Us == 0..(NU-1)
Vs == 0..(NV-1)

VARIABLES E, mu, pc, k, naug, phases, cover
vars == <<E, mu, pc, k, naug, phases, cover>>

Init == /\ E \in SUBSET (Us \X Vs)
        /\ mu = EmptyMatching(Us)
        /\ pc = "bfs" /\ k = 0 /\ naug = 0 /\ phases = 0
        /\ cover = [u |-> {}, v |-> {}]

Bfs == /\ pc = "bfs"
       /\ LET len == ShortestAugLen(E, mu, Vs)
          IN IF len = 0
             THEN pc' = "done" /\ UNCHANGED <<k, phases>>
             ELSE pc' = "aug" /\ k' = len /\ phases' = phases + 1
       /\ naug' = 0
       /\ UNCHANGED <<E, mu, cover>>

Augment(p) == /\ pc = "aug"
              /\ IsAugPath(E, mu, Vs, p)
              /\ Len(p) = 2 * k
              /\ mu' = Flip(mu, p)
              /\ naug' = naug + 1
              /\ UNCHANGED <<E, pc, k, phases, cover>>

(* MaximalPhases = TRUE: a phase ends only when no layered augmenting path is left (textbook Hopcroft-Karp);  *)
(* FALSE: a phase may end after any positive number of augmentations (all the correctness argument needs).   *)
EndPhase == /\ pc = "aug" /\ naug >= 1
            /\ MaximalPhases => AugPathsOfLen(E, mu, Vs, k) = {}
            /\ pc' = "bfs"
            /\ UNCHANGED <<E, mu, k, naug, phases, cover>>

Cover == /\ pc = "done"
         /\ cover' = KoenigCover(E, mu)
         /\ pc' = "end"
         /\ UNCHANGED <<E, mu, k, naug, phases>>

Next == \/ Bfs
        \/ (pc = "aug" /\ \E p \in AugPathsOfLen(E, mu, Vs, k) : Augment(p))
        \/ EndPhase
        \/ Cover

Spec == Init /\ [][Next]_vars /\ WF_vars(Next)

----------------------------------------------------------------------------
TypeOK == /\ E \subseteq Us \X Vs
          /\ mu \in [Us -> Vs \cup {NIL}]
          /\ pc \in {"bfs", "aug", "done", "end"}

(* C18: the matching is a set of existing edges that share no vertex ... *)
MatchingValid == IsMatching(E, mu, Vs)

(* ... whose size is the maximum (Berge at "done"; brute force on tiny graphs) *)
MatchingMaximum ==
    pc \in {"done", "end"} =>
        /\ ~AugPathExists(E, mu, Vs)
        /\ BruteForce => MatchSize(mu) = MaxMatchingSize(E, Us, Vs)

(* the cover touches every edge, lies within range, and has the size of the matching (Koenig) => minimum *)
CoverMinimum ==
    pc = "end" =>
        /\ cover.u \subseteq Us /\ cover.v \subseteq Vs
        /\ IsCover(E, cover.u, cover.v)
        /\ Cardinality(cover.u) + Cardinality(cover.v) = MatchSize(mu)
        /\ BruteForce => Cardinality(cover.u) + Cardinality(cover.v) = MinCoverSize(E, Us, Vs)

(* every phase adds at least one edge: at most min(NU, NV) phases *)
PhaseBound == phases <= (IF NU < NV THEN NU ELSE NV) /\ phases <= MatchSize(mu) + (IF pc = "aug" /\ naug = 0 THEN 1 ELSE 0)

(* a successful Bfs guarantees that at least one layered augmenting path exists: the phase cannot get stuck *)
PhaseProgress == (pc = "aug" /\ naug = 0) => AugPathsOfLen(E, mu, Vs, k) # {}

(* the matching only grows, by exactly one edge per augmentation *)
Monotone == [][MatchSize(mu') >= MatchSize(mu) /\ (MatchSize(mu') > MatchSize(mu) => MatchSize(mu') = MatchSize(mu) + 1)]_vars

Terminates == <>(pc = "end")
=============================================================================
