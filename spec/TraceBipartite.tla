-------------------------- MODULE TraceBipartite --------------------------
(* Trace validation for pytenet/bipartite_graph.py against Bipartite.tla.  *)
(* One trace = one call of minimum_vertex_cover(graph) (which runs         *)
(* Hopcroft-Karp inside), recorded by harness/props/c18.py:                *)
(*   graph    nu, nv, edges (deduplicated edge set handed to the code)     *)
(*   bfs      return value of __connect_unmatched_vertices and dist[NIL]   *)
(*   aug      the augmenting path applied by one successful top-level      *)
(*            __add_augmenting_path call                                   *)
(*   matching the list returned by HopcroftKarp.__call__                   *)
(*   cover    the two lists returned by minimum_vertex_cover               *)
(*   raise    an exception escaped                                         *)
(* bfs/aug events come from wrappers on private methods; if a refactoring  *)
(* removes those, the trace only has graph/matching/cover and the result   *)
(* clauses of C18 are still decided (TMatching checks Berge's condition).  *)
EXTENDS BipartiteOps, TLC, Json, IOUtils

Data == JsonDeserialize(IOEnv.TRACE_FILE)
Tr == Data.traces
(* Two levels (harness/parallel.py): Strict = the full specification of what the code does (Hopcroft-Karp phases: BFS   *)
(* results, shortest augmenting paths, the matching is the model state).  The property C18 only speaks about the      *)
(* returned matching and cover; with Strict = FALSE the bfs / aug events are removed and only those clauses decide.    *)
Strict == IF "strict" \in DOMAIN Data THEN Data.strict ELSE TRUE

VARIABLES tid, l, E, Us, Vs, mu, pc, k, naug, cover
vars == <<tid, l, E, Us, Vs, mu, pc, k, naug, cover>>

Rec == Tr[tid][l]
HasRec == tid <= Len(Tr) /\ l <= Len(Tr[tid])
SeqToSet(s) == {s[i] : i \in 1..Len(s)}
Blank == /\ E' = {} /\ Us' = {} /\ Vs' = {} /\ mu' = <<>> /\ pc' = "idle" /\ k' = 0 /\ naug' = 0
         /\ cover' = [u |-> {}, v |-> {}]

TraceInit == /\ tid = 1 /\ l = 1 /\ E = {} /\ Us = {} /\ Vs = {} /\ mu = <<>> /\ pc = "idle" /\ k = 0 /\ naug = 0
             /\ cover = [u |-> {}, v |-> {}]

Advance == l' = l + 1 /\ tid' = tid

TGraph == /\ HasRec /\ Rec.ev = "graph" /\ pc = "idle"
          /\ Us' = 0..(Rec.nu - 1) /\ Vs' = 0..(Rec.nv - 1)
          /\ E' = {<<e[1], e[2]>> : e \in SeqToSet(Rec.edges)}
          /\ E' \subseteq Us' \X Vs'
          /\ mu' = EmptyMatching(Us')
          /\ pc' = "bfs" /\ k' = 0 /\ naug' = 0 /\ cover' = cover
          /\ Advance

(* Bipartite!Bfs (preceded by Bipartite!EndPhase when a phase is open) bound to the logged result *)
TBfs == /\ HasRec /\ Rec.ev = "bfs" /\ pc \in {"bfs", "aug"}
        /\ pc = "aug" => naug >= 1
        /\ LET len == ShortestAugLen(E, mu, Vs)
           IN /\ Rec.found = (len # 0)
              /\ Rec.found => Rec.k = len
              /\ IF len = 0 THEN pc' = "done" /\ k' = k ELSE pc' = "aug" /\ k' = len
        /\ naug' = 0
        /\ UNCHANGED <<E, Us, Vs, mu, cover>>
        /\ Advance

(* Bipartite!Augment(p) *)
TAug == /\ HasRec /\ Rec.ev = "aug" /\ pc = "aug"
        /\ IsAugPath(E, mu, Vs, Rec.path)
        /\ Len(Rec.path) = 2 * k
        /\ mu' = Flip(mu, Rec.path)
        /\ naug' = naug + 1
        /\ UNCHANGED <<E, Us, Vs, pc, k, cover>>
        /\ Advance

LoggedMatching == [u \in Us |-> IF \E i \in 1..Len(Rec.pairs) : Rec.pairs[i][1] = u
                                THEN Rec.pairs[CHOOSE i \in 1..Len(Rec.pairs) : Rec.pairs[i][1] = u][2]
                                ELSE NIL]

(* result clauses of C18 for the matching; with hooks present the model must also have arrived at pc = "done" *)
TMatching == /\ HasRec /\ Rec.ev = "matching" /\ pc \in {"bfs", "done"}
             /\ \A i \in 1..Len(Rec.pairs) : Rec.pairs[i][1] \in Us /\ Rec.pairs[i][2] \in Vs
             /\ \A i, j \in 1..Len(Rec.pairs) : i # j => Rec.pairs[i][1] # Rec.pairs[j][1]
             /\ IsMatching(E, LoggedMatching, Vs)
             /\ (Strict /\ pc = "done") => LoggedMatching = mu
             /\ pc = "bfs" => naug = 0 /\ k = 0          \* no hook events at all
             /\ ~AugPathExists(E, LoggedMatching, Vs)
             /\ mu' = LoggedMatching /\ pc' = "matched"
             /\ UNCHANGED <<E, Us, Vs, k, naug, cover>>
             /\ Advance

(* Bipartite!Cover: any cover of the size of the matching is minimum; the code's choice is Koenig's *)
TCover == /\ HasRec /\ Rec.ev = "cover" /\ pc = "matched"
          /\ LET cu == SeqToSet(Rec.uc)  cv == SeqToSet(Rec.vc)
             IN /\ Len(Rec.uc) = Cardinality(cu) /\ Len(Rec.vc) = Cardinality(cv)
                /\ cu \subseteq Us /\ cv \subseteq Vs
                /\ IsCover(E, cu, cv)
                /\ Cardinality(cu) + Cardinality(cv) = MatchSize(mu)
                /\ cover' = [u |-> cu, v |-> cv]
          /\ pc' = "end"
          /\ UNCHANGED <<E, Us, Vs, mu, k, naug>>
          /\ Advance

(* a history: the solver (the same HopcroftKarp object, or a new one on the same graph) is invoked again *)
TAgain == /\ HasRec /\ Rec.ev = "again" /\ pc = "matched"
          /\ mu' = EmptyMatching(Us) /\ pc' = "bfs" /\ k' = 0 /\ naug' = 0
          /\ UNCHANGED <<E, Us, Vs, cover>>
          /\ Advance

TStep == TGraph \/ TBfs \/ TAug \/ TMatching \/ TCover \/ TAgain

TNextTrace == /\ tid <= Len(Tr) /\ l > Len(Tr[tid])
              /\ pc = "end"
              /\ TLCSet(1, TLCGet(1) \cup {tid})
              /\ tid' = tid + 1 /\ l' = 1 /\ Blank

FailedClause ==
    IF Rec.ev = "raise" THEN Rec.exc
    ELSE IF Rec.ev = "aug" THEN (IF Strict /\ (pc # "aug") THEN "spec: aug outside phase"
                                 ELSE IF Strict /\ (~IsAugPath(E, mu, Vs, Rec.path)) THEN "spec: not an augmenting path of the current matching"
                                 ELSE IF Strict THEN "spec: path length differs from BFS layer distance" ELSE "a property clause of this event failed (no specific diagnostic)")
    ELSE IF Strict /\ (Rec.ev = "bfs") THEN "spec: BFS result differs from shortest augmenting path length"
    ELSE IF Rec.ev = "matching" THEN
        (IF ~(\A i \in 1..Len(Rec.pairs) : Rec.pairs[i][1] \in Us /\ Rec.pairs[i][2] \in Vs) THEN "matching vertex out of range"
         ELSE IF ~(\A i, j \in 1..Len(Rec.pairs) : i # j => Rec.pairs[i][1] # Rec.pairs[j][1]) THEN "U vertex matched twice"
         ELSE IF ~IsMatching(E, LoggedMatching, Vs) THEN "not a matching of existing edges"
         ELSE IF AugPathExists(E, LoggedMatching, Vs) THEN "matching not maximum (augmenting path exists)"
         ELSE IF Strict THEN "spec: matching differs from model state" ELSE "a property clause of this event failed (no specific diagnostic)")
    ELSE IF Rec.ev = "cover" THEN
        (LET cu == SeqToSet(Rec.uc)  cv == SeqToSet(Rec.vc)
         IN IF ~(cu \subseteq Us /\ cv \subseteq Vs) THEN "cover vertex out of range"
            ELSE IF ~IsCover(E, cu, cv) THEN "cover misses an edge"
            ELSE IF Cardinality(cu) + Cardinality(cv) # MatchSize(mu) THEN "cover size differs from matching size (not minimum)"
            ELSE "cover malformed")
    ELSE "unexpected event"

TReject == /\ tid <= Len(Tr)
           /\ \/ (HasRec /\ ~ENABLED TStep)
              \/ (l > Len(Tr[tid]) /\ pc # "end")
           /\ PrintT(<<"REJECT", tid, l, IF HasRec THEN Rec.ev ELSE "eot",
                       IF HasRec THEN FailedClause ELSE "trace ended before cover">>)
           /\ tid' = tid + 1 /\ l' = 1 /\ Blank

TraceNext == TStep \/ TNextTrace \/ TReject
TraceSpec == TraceInit /\ [][TraceNext]_vars

ASSUME TLCSet(1, {})
TraceDone == PrintT(<<"DONE", TLCGet(1)>>) /\ TLCGet("stats").diameter >= 1

(* invariants of Bipartite.tla evaluated in every state of every validated trace *)
TraceMatchingValid == pc # "idle" => IsMatching(E, mu, Vs)
=============================================================================
